"""Development aid: TLC-validate every *.ndjson shard of a directory and print the non-ok verdicts.
   usage: valdir.py <dir>   (W=<workers>)"""
import sys, os, json, shutil, tempfile, concurrent.futures as cf
sys.path.insert(0, os.path.dirname(os.path.abspath(__file__)))
import check as C
d = sys.argv[1]
scratch = tempfile.mkdtemp(prefix="verif-valdir-")
try:
    specdir = os.path.join(scratch, "spec"); shutil.copytree(C.SPEC, specdir)
    files = sorted(os.path.join(d, f) for f in os.listdir(d) if f.endswith(".ndjson"))
    with cf.ThreadPoolExecutor(max_workers=int(os.environ.get("W", "6"))) as ex:
        for path, res in zip(files, ex.map(lambda p: C.validate_shard(specdir, p), files)):
            evs = [json.loads(x) for x in open(path)]
            cnt = {}
            shown = 0
            for ln, op, v in res["verdicts"]:
                k = v.split(":")[0] if not v.startswith("kf") else v
                cnt[k] = cnt.get(k, 0) + 1
                if not (v.startswith("ok") or v.startswith("kf")) and shown < int(os.environ.get("SHOW", "5")):
                    shown += 1
                    print("  ", ln, op, v, json.dumps(evs[ln - 1])[:int(os.environ.get("CUT", "500"))])
            print(os.path.basename(path), "consumed", res["consumed"], "of", len(evs), cnt)
            if res["consumed"] != len(evs):
                print(res["out"][-1500:])
finally:
    shutil.rmtree(scratch, ignore_errors=True)
