#!/bin/bash
# usage: tryseed.sh <seed-id> <prop> [seed]  -- apply a seeded change in a scratch worktree and run the quick check against it
sid=$1; pid=$2; sd=${3:-1}
wt=/tmp/wtt-$sid
git -C /repo worktree remove --force $wt >/dev/null 2>&1
git -C /repo worktree add --detach $wt HEAD >/dev/null 2>&1
git -C $wt apply /verif/seeded/$sid/patch.diff || { echo "patch failed"; exit 3; }
cd /verif && VERIF_SEED=$sd VERIF_SKIP_MODELS=1 VERIF_REPO=$wt VERIF_REPLAYS=/tmp/try-replays VERIF_EVIDENCE=/tmp/try-evidence python3 tools/check.py $pid --tier quick 2>&1 | grep -v "^  verdict" | tail -${TAILN:-4}
git -C /repo worktree remove --force $wt >/dev/null 2>&1; rm -rf $wt
