#!/bin/bash
# usage: tlc.sh <workers> <heap> <spec.tla> <cfg> [extra TLC args...]   (run from the spec directory; own metadir)
W=$1; H=$2; SPEC=$3; CFG=$4; shift 4
MD=$(mktemp -d /tmp/tlcmeta.XXXXXX)
trap 'rm -rf "$MD"' EXIT
java -Xmx$H -Xss256m -XX:+UseParallelGC -XX:ParallelGCThreads=2 \
  -cp /opt/veriftools/tla/tla2tools.jar:/opt/veriftools/tla/CommunityModules-deps.jar \
  tlc2.TLC -workers $W -metadir "$MD" -config "$CFG" "$@" "$SPEC"
