#!/usr/bin/env python3
"""Confirm and evaluate seeded changes produced by independent sub-agents.

  seeded_eval.py import <agent SEEDED dir> <pid>     confirm each change in a scratch worktree and store it
                                                     under /verif/seeded/<pid>-<X>/
  seeded_eval.py run [<id> ...]                      apply each stored change to /repo, run the quick check of its
                                                     property, undo it straight afterwards, record the outcome in
                                                     /verif/seeded/RESULTS.json
Nothing is ever committed to /repo by this script.
"""
import json
import os
import re
import shutil
import subprocess
import sys
import time

VERIF = os.path.dirname(os.path.dirname(os.path.abspath(__file__)))
SEEDED = os.path.join(VERIF, "seeded")
ENV = dict(os.environ, GOFLAGS="-mod=mod", GOPROXY="off", GOSUMDB="off", GOTOOLCHAIN="local")


def sh(cmd, cwd=None, timeout=1800):
    p = subprocess.run(cmd, shell=True, cwd=cwd, env=ENV, capture_output=True, text=True, timeout=timeout)
    return p.returncode, p.stdout + p.stderr


def failing_tests(out):
    return sorted(set(re.findall(r"^--- FAIL: (\S+)", out, re.M)))


def confirm(src, pid, name):
    """Confirm in a scratch worktree of /repo's HEAD: demo passes clean, fails with the patch, suite otherwise passes."""
    wt = "/tmp/wtc-%s-%s" % (pid, name)
    sh("git -C /repo worktree remove --force %s" % wt)
    rc, out = sh("git -C /repo worktree add --detach %s HEAD" % wt)
    if rc != 0:
        return dict(ok=False, why="worktree: " + out[-300:])
    try:
        shutil.copy(os.path.join(src, "demo_test.go"), os.path.join(wt, "seeded_demo_test.go"))
        rc0, out0 = sh("go test -count=1 -run 'Seeded|seeded|Demo' . 2>&1 | tail -30", cwd=wt)
        clean_pass = "FAIL" not in out0 and "ok" in out0
        rc, out = sh("git apply --3way %s" % os.path.join(src, "patch.diff"), cwd=wt)
        if rc != 0:
            rc, out = sh("git apply %s" % os.path.join(src, "patch.diff"), cwd=wt)
            if rc != 0:
                return dict(ok=False, why="patch does not apply to HEAD: " + out[-300:])
        rcb, outb = sh("go build ./... 2>&1 | tail", cwd=wt)
        rc1, out1 = sh("go test -count=1 . 2>&1 | grep -E '^(--- FAIL|FAIL|ok)'", cwd=wt)
        fails = failing_tests(out1)
        demo_fails = [f for f in fails if re.search("eeded|Demo", f)]
        other = [f for f in fails if f not in demo_fails and f != "TestDecimalFormat"]
        ok = clean_pass and bool(demo_fails) and not other and rcb == 0
        return dict(ok=ok, clean_demo_passes=clean_pass, demo_fails_with_change=demo_fails,
                    other_failing_tests=other, ran=["go test -run Seeded (clean)", "git apply patch.diff", "go test ."])
    finally:
        sh("git -C /repo worktree remove --force %s" % wt)
        shutil.rmtree(wt, ignore_errors=True)


def do_import(agent_dir, pid, suffix=""):
    for name in sorted(os.listdir(agent_dir)):
        src = os.path.join(agent_dir, name)
        if not os.path.exists(os.path.join(src, "patch.diff")):
            continue
        res = confirm(src, pid, name)
        sid = "%s-%s%s" % (pid, name, suffix)
        print(sid, "confirmed" if res["ok"] else "NOT CONFIRMED", json.dumps(res)[:400], flush=True)
        if not res["ok"]:
            continue
        dst = os.path.join(SEEDED, sid)
        os.makedirs(dst, exist_ok=True)
        shutil.copy(os.path.join(src, "patch.diff"), dst)
        shutil.copy(os.path.join(src, "demo_test.go"), os.path.join(dst, "demo_test.go.txt"))
        meta = {}
        try:
            meta = json.load(open(os.path.join(src, "meta.json")))
        except Exception:
            pass
        meta = {"property": pid, "origin": "independent sub-agent given only the property text and a scratch worktree",
                "agent_meta": meta, "confirmed": res}
        json.dump(meta, open(os.path.join(dst, "meta.json"), "w"), indent=1)


def do_run(ids, in_repo=False, seeds=("",)):
    """Default: each change is applied in its own scratch worktree of /repo's HEAD and the checks are pointed at it with
    VERIF_REPO (so that /repo stays usable meanwhile).  With --in-repo the patch is applied to /repo itself
    (git -C /repo apply), the checks run, and it is undone straight afterwards (git -C /repo reset --hard)."""
    os.makedirs(SEEDED, exist_ok=True)
    rpath = os.path.join(SEEDED, "RESULTS.json" if len(seeds) == 1 else "RESULTS_multiseed.json")
    results = json.load(open(rpath)) if os.path.exists(rpath) else {}
    if in_repo:
        rc, out = sh("git -C /repo status --porcelain")
        if out.strip():
            print("/repo is not clean; refusing", out)
            return 2
    for sid in ids or sorted(d for d in os.listdir(SEEDED) if os.path.isdir(os.path.join(SEEDED, d))):
        d = os.path.join(SEEDED, sid)
        meta = json.load(open(os.path.join(d, "meta.json")))
        pid = meta["property"]
        patch = os.path.join(d, "patch.diff")
        if in_repo:
            tree = "/repo"
        else:
            tree = "/tmp/wts-%s" % sid
            sh("git -C /repo worktree remove --force %s" % tree)
            sh("git -C /repo worktree add --detach %s HEAD" % tree)
        rc, out = sh("git -C %s apply --3way %s || git -C %s apply %s" % (tree, patch, tree, patch))
        if rc != 0:
            print(sid, "patch does not apply", out[-300:])
            results[sid] = dict(property=pid, outcome="patch-does-not-apply")
        else:
            t0 = time.time()
            try:
                outcome = {}
                for p in [pid] + list(meta.get("also_run", [])):
                    for sd in seeds:
                        env = "VERIF_REPO=%s VERIF_REPLAYS=/tmp/seeded-replays VERIF_EVIDENCE=/tmp/seeded-evidence " % tree
                        if sd != "":
                            # several generator seeds: the small-format models (code-independent) are skipped
                            env += "VERIF_SEED=%s VERIF_SKIP_MODELS=1 " % sd
                        rc, out = sh(env + "python3 tools/check.py %s --tier quick" % p, cwd=VERIF, timeout=3600)
                        vio = re.findall(r"^VIOLATION .*", out, re.M)
                        outcome[p + ("" if sd == "" else "@seed" + sd)] = dict(
                            exit=rc, violations=len(vio), first=(vio[0] if vio else ""),
                            tail=out[-300:] if rc not in (0, 1) else "")
            finally:
                if in_repo:
                    sh("git -C /repo reset -q --hard HEAD")
            detected = all(o["exit"] == 1 for o in outcome.values()) if len(seeds) > 1 else any(o["exit"] == 1 for o in outcome.values())
            results[sid] = dict(property=pid, detected=detected, checks=outcome, wall_s=round(time.time() - t0),
                                applied_to=tree)
            print(sid, "DETECTED" if detected else "MISSED", json.dumps(outcome)[:300], flush=True)
        if not in_repo:
            sh("git -C /repo worktree remove --force %s" % tree)
            shutil.rmtree(tree, ignore_errors=True)
        # several evaluations may run side by side: merge this outcome into the file under a lock
        import fcntl
        with open(rpath + ".lock", "w") as lk:
            fcntl.flock(lk, fcntl.LOCK_EX)
            cur = json.load(open(rpath)) if os.path.exists(rpath) else {}
            if sid in results:
                cur[sid] = results[sid]
            json.dump(cur, open(rpath, "w"), indent=1, sort_keys=True)
    return 0


if __name__ == "__main__":
    if sys.argv[1] == "import":
        do_import(sys.argv[2], sys.argv[3], sys.argv[4] if len(sys.argv) > 4 else "")
    elif sys.argv[1] == "run":
        args = sys.argv[2:]
        inrepo = "--in-repo" in args
        seeds = ("",)
        for a in args:
            if a.startswith("--seeds="):
                seeds = tuple(a.split("=", 1)[1].split(","))
        sys.exit(do_run([a for a in args if not a.startswith("--")], inrepo, seeds))
