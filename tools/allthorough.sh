#!/bin/bash
cd "$(dirname "$0")/.."
for p in "$@"; do
  s=$(date +%s)
  out=$(VERIF_SEED=5 VERIF_REPLAYS=/tmp/allthorough-replays VERIF_EVIDENCE=/tmp/allthorough-evidence python3 tools/check.py $p --tier thorough 2>&1); rc=$?
  echo "$p rc=$rc wall=$(( $(date +%s) - s ))s $(echo "$out" | tail -1)"
  echo "$out" | grep -m3 "VIOLATION\|INFRA" 
  echo "$out" | grep -A12 "INFRA" | head -20
done
