"""Per-property wording for MANIFEST.json."""
_ARITH_LEVEL = ("TLC decides the property exhaustively on the specification for small decimal formats of the same shape "
                "(every operand pair x mode x operation; exact result recomputed with native integers; declarative IsRounding), "
                "and the same TLA+ semantic functions, instantiated at the real format size, validate recorded calls of the real "
                "code step by step (two independent rounding formulations must agree on each verdict). Exhaustive at spec level, "
                "directed + randomised exploration at code level.")
_ARITH_NOTE = ("Trusted: TLC, the TLA+ BigNat arithmetic (model-checked against native integers), the BID decoder written from the "
               "standard, the driver's recording. Not a proof for all 2^256 operand pairs of the real code.")
TEXT = {
    "C01": dict(level_text=_ARITH_LEVEL, level_note=_ARITH_NOTE, design_ref="DESIGN.md §6 C01",
                technique="TLA+ reference model; TLC exhaustive on small formats + TLC trace validation of recorded real calls at full size"),
    "C02": dict(level_text=_ARITH_LEVEL, level_note=_ARITH_NOTE, design_ref="DESIGN.md §6 C02",
                technique="TLA+ reference model; TLC exhaustive on small formats + TLC trace validation of recorded real calls at full size"),
}
_GEN_LEVEL = ("TLC decides the property exhaustively on the TLA+ specification for small formats (all values / pairs / triples x "
              "parameters; exact quantities recomputed with native integers), and the same semantic functions at the real "
              "format size validate recorded calls of the real code step by step. Exhaustive at spec level, directed + "
              "randomised exploration at code level.")
for _p, _s in [("C03", "C03"), ("C05", "C05"), ("C06", "C06"), ("C04", "C04"), ("C08", "C08"), ("C09", "C09"), ("C10", "C10"), ("C11", "C11"), ("C12", "C12"), ("C13", "C13"), ("C14", "C14"), ("C19", "C19")]:
    TEXT[_p] = dict(level_text=_GEN_LEVEL if _p != "C03" else _ARITH_LEVEL, level_note=_ARITH_NOTE,
                    design_ref="DESIGN.md §6 " + _s,
                    technique="TLA+ reference model; TLC exhaustive on small formats + TLC trace validation of recorded real calls at full size")
NOT_APPLICABLE = []
