"""Per-property wording for MANIFEST.json."""
_ARITH_LEVEL = ("TLC decides the property exhaustively on the specification for small decimal formats of the same shape "
                "(every operand pair x mode x operation; exact result recomputed with native integers; declarative IsRounding), "
                "and the same TLA+ semantic functions, instantiated at the real format size, validate recorded calls of the real "
                "code step by step (two independent rounding formulations must agree on each verdict). Exhaustive at spec level, "
                "directed + randomised exploration at code level.")
_ARITH_NOTE = ("Trusted: TLC, the TLA+ BigNat arithmetic (model-checked against native integers), the BID decoder written from the "
               "standard, the driver's recording. Not a proof for all 2^256 operand pairs of the real code.")
TEXT = {
    "C01": dict(level_text=_ARITH_LEVEL, level_note=_ARITH_NOTE, design_ref="DESIGN.md §6 C01",
                technique="TLA+ reference model; TLC exhaustive on small formats + TLC trace validation of recorded real calls at full size"),
    "C02": dict(level_text=_ARITH_LEVEL, level_note=_ARITH_NOTE, design_ref="DESIGN.md §6 C02",
                technique="TLA+ reference model; TLC exhaustive on small formats + TLC trace validation of recorded real calls at full size"),
}
_GEN_LEVEL = ("TLC decides the property exhaustively on the TLA+ specification for small formats (all values / pairs / triples x "
              "parameters; exact quantities recomputed with native integers), and the same semantic functions at the real "
              "format size validate recorded calls of the real code step by step. Exhaustive at spec level, directed + "
              "randomised exploration at code level.")
for _p, _s in [("C03", "C03"), ("C05", "C05"), ("C06", "C06"), ("C07", "C07"), ("C04", "C04"), ("C08", "C08"), ("C09", "C09"), ("C10", "C10"), ("C11", "C11"), ("C12", "C12"), ("C13", "C13"), ("C14", "C14"), ("C19", "C19")]:
    TEXT[_p] = dict(level_text=_GEN_LEVEL if _p != "C03" else _ARITH_LEVEL, level_note=_ARITH_NOTE,
                    design_ref="DESIGN.md §6 " + _s,
                    technique="TLA+ reference model; TLC exhaustive on small formats + TLC trace validation of recorded real calls at full size")
_EXP_LEVEL = ("Exploration with an exact oracle inside the specification: directed + randomised real calls are validated step by step "
              "by TLC; %s The small-format / sanity models are checked exhaustively by TLC.")
TEXT["C15"] = dict(level_text=_GEN_LEVEL, level_note=_ARITH_NOTE, design_ref="DESIGN.md §6 C15",
                   technique="TLA+ special-operand tables (UnarySpecial, PowLadder, arithmetic Sem) checked by TLC on a small format + TLC trace validation of class-representative calls")
TEXT["C16"] = dict(level_text=_EXP_LEVEL % "exp-type results against rigorous 72-digit fixed-point enclosures of e^a, log-type results by certification (e^(r-u) <= x <= e^(r+u)), verdicts ok/reject/undecided.",
                   level_note=_ARITH_NOTE + " The constants ln 2, ln 10 are typed digits certified by TLC ASSUMEs with the enclosure itself; MC_Encl checks the enclosure against exact rational Taylor sums. Known findings KF1-KF4 are reported, not suppressed silently.",
                   design_ref="DESIGN.md §6 C16", technique="TLA+ enclosure oracle (Encl.tla) + TLC trace validation of recorded real calls")
TEXT["C17"] = dict(level_text=_EXP_LEVEL % "the C17 inequality (r -+ (1/2+1e-20)u)^k <=> |d| is evaluated exactly with BigNat integers.",
                   level_note=_ARITH_NOTE, design_ref="DESIGN.md §6 C17", technique="exact integer inequality in TLA+ (RootOK) + TLC trace validation; small-format model compares it with a native restatement")
TEXT["C18"] = dict(level_text=_EXP_LEVEL % "the shortcut ladder is exact (PowLadder, checked exhaustively on a small format); the general path uses the enclosure of e^(y ln x) with a driver-supplied, spec-certified witness for ln x and C18's error budget.",
                   level_note=_ARITH_NOTE + " The ln x witness is untrusted: it is certified by the enclosure before use, otherwise the step is undecided.",
                   design_ref="DESIGN.md §6 C18", technique="TLA+ PowLadder + enclosure oracle + TLC trace validation of recorded real calls")
TEXT["C20"] = dict(level_text="Exploration: every entry point is called on raw random bit patterns and extreme scalars (precision/width 100000, "
                   "MinInt exponents, 64k-digit strings, arbitrary format specs), each call twice (determinism), with the documented panics as the "
                   "only accepted ones; then shuffled copies of pure calls run from 8-64 goroutines on shared operands in a -race build and every "
                   "concurrent result must equal the sequential one; TLC validates every recorded step against the specification. The design "
                   "(shared mode read at call begin, all interleavings) is model-checked exhaustively in MC_Conc with a negative control.",
                   level_note="Freedom from data races is observed by the Go race detector on the recorded executions (instrumentation on the implementation side of the binding); interleavings of the real code are sampled, not enumerated: the library has no synchronisation points at which a scheduler gate could be placed.",
                   design_ref="DESIGN.md §6 C20", technique="TLC-exhaustive interleaving model (MC_Conc) + TLC trace validation of sequential and concurrent recorded calls (race-detector build)")
for _p in ("C01", "C02", "C03", "C04", "C06", "C07", "C08", "C09", "C11", "C12", "C16", "C17", "C19"):
    TEXT[_p]["technique"] += "; TLC-simulated behaviours of the Calc state machine replayed into the code step by step"
NOT_APPLICABLE = []
