"""Per-property wording for MANIFEST.json."""
_ARITH_LEVEL = ("TLC decides the property exhaustively on the specification for small decimal formats of the same shape "
                "(every operand pair x mode x operation; exact result recomputed with native integers; declarative IsRounding), "
                "and the same TLA+ semantic functions, instantiated at the real format size, validate recorded calls of the real "
                "code step by step (two independent rounding formulations must agree on each verdict). Exhaustive at spec level, "
                "directed + randomised exploration at code level.")
_ARITH_NOTE = ("Trusted: TLC, the TLA+ BigNat arithmetic (model-checked against native integers), the BID decoder written from the "
               "standard, the driver's recording. Not a proof for all 2^256 operand pairs of the real code.")
TEXT = {
    "C01": dict(level_text=_ARITH_LEVEL, level_note=_ARITH_NOTE, design_ref="DESIGN.md §6 C01",
                technique="TLA+ reference model; TLC exhaustive on small formats + TLC trace validation of recorded real calls at full size"),
    "C02": dict(level_text=_ARITH_LEVEL, level_note=_ARITH_NOTE, design_ref="DESIGN.md §6 C02",
                technique="TLA+ reference model; TLC exhaustive on small formats + TLC trace validation of recorded real calls at full size"),
}
NOT_APPLICABLE = []
