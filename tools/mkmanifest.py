#!/usr/bin/env python3
"""Writes /verif/MANIFEST.json from the table below (kept next to props.py so that both stay in step)."""
import json, os, sys
sys.path.insert(0, os.path.dirname(os.path.abspath(__file__)))
from props import PROPS
from manifest_text import TEXT, NOT_APPLICABLE

hooks_commits = [l.strip() for l in open(os.path.join(os.path.dirname(__file__), "hook_commits.txt")) if l.strip()]
checks = []
for pid in sorted(PROPS):
    t = TEXT[pid]
    checks.append({
        "property_id": pid,
        "quick_cmd": "python3 tools/check.py %s --tier quick" % pid,
        "thorough_cmd": "python3 tools/check.py %s --tier thorough" % pid,
        "evidence_file": "/verif/evidence/%s.json" % pid,
        "replay_cmd_template": "python3 tools/check.py replay {path}",
        "engine": "tlc-trace",
        "level_claimed": {"category": PROPS[pid]["level"], "text": t["level_text"], "design_ref": t["design_ref"]},
        "level_note": t["level_note"],
        "technique": t["technique"],
    })
m = {
    "version": 1,
    "setup_cmd": "python3 tools/setup.py",
    "hooks": {
        "guard": "verif",
        "enable": "go build -tags verif (the driver module in /verif/driver replaces github.com/woodsbury/decimal128 by /repo and is rebuilt by every check)",
        "baseline_off_cmd": "cd /repo && go test -vet=off -count=1 -timeout 25m ./...",
        "source_commits": hooks_commits,
        "add_only": True,
    },
    "engines": [
        {"name": "tlc-trace", "path": "/verif/tools/check.py",
         "serves_properties": sorted(PROPS),
         "kind_free_text": "explicit TLA+ specification (spec/*.tla): exhaustive TLC runs on small decimal formats (MC_*.tla) "
                           "plus TLC trace validation at the real format size (Trace.tla) of calls recorded from the real code "
                           "by the Go driver, and replay of TLC-generated behaviours into the code"},
    ],
    "checks": checks,
    "not_applicable": NOT_APPLICABLE,
    "notes": "See DESIGN.md. known_findings.json lists repaired (fixed:) and unrepaired genuine defects.",
}
json.dump(m, open(os.path.join(os.path.dirname(os.path.dirname(os.path.abspath(__file__))), "MANIFEST.json"), "w"), indent=1)
print("MANIFEST.json written with", len(checks), "checks")
