"""Per-property configuration of the checks: generator budgets and small-format model configs."""

ARITH_RULE = ("events are real calls recorded by the driver (directed guard/sticky/tie constructions, cancellation, "
              "range edges, boundary pool, random); a step is non-trivial when the exact result is not a member of the "
              "format, so the rounding mode had to choose (TLC verdict ok+); distinct = distinct inputs (op, operands, mode)")
GEN_RULE = ("events are real calls recorded by the driver (directed boundary classes + random, see DESIGN.md section 6); "
            "non-trivial = the specification reports the step as one where the operation had to do work (rounding, digit "
            "dropping, a changed value; TLC verdict ok+); where the operation has no such notion every distinct input counts")


def P(level, rule, qsteps, tsteps, qmodels, tmodels, count_all=False, **kw):
    d = dict(level=level, rule=rule, count_all=count_all,
             quick=dict(steps=qsteps, shards=10, model_workers=6, models=qmodels),
             thorough=dict(steps=tsteps, shards=12, model_workers=4, models=tmodels, model_timeout=3000))
    d.update(kw)
    return d


def A(pid):
    return [("MC_Arith.tla", "MC_Arith_%s_quick.cfg" % pid)], [("MC_Arith.tla", "MC_Arith_%s_thorough.cfg" % pid)]


def O(pid):
    return [("MC_Ops.tla", "MC_Ops_%s_quick.cfg" % pid)], [("MC_Ops.tla", "MC_Ops_%s_thorough.cfg" % pid)]


PROPS = {
    "C01": P("model_checking", ARITH_RULE, 3000, 15000, *A("C01")),
    "C02": P("model_checking", ARITH_RULE, 3000, 15000, *A("C02")),
    "C03": P("model_checking", ARITH_RULE, 2000, 8000, *A("C03")),
    "C04": P("model_checking", GEN_RULE, 8000, 150000, *O("C04"), count_all=True),
    "C05": P("model_checking", GEN_RULE, 6000, 150000, [("MC_Text.tla", "MC_Text_syn_quick.cfg")], [("MC_Text.tla", "MC_Text_syn_thorough.cfg")], count_all=True),
    "C06": P("model_checking", GEN_RULE, 3000, 20000, [("MC_Text.tla", "MC_Text_str_quick.cfg")], [("MC_Text.tla", "MC_Text_str_thorough.cfg")], count_all=True),
    "C07": P("model_checking", GEN_RULE, 5000, 150000, [("MC_Fmt.tla", "MC_Fmt_quick.cfg")], [("MC_Fmt.tla", "MC_Fmt_thorough.cfg")], count_all=True),
    "C08": P("model_checking", GEN_RULE, 3500, 80000, *O("C08")),
    "C09": P("model_checking", GEN_RULE, 700, 6000, [("MC_Convert.tla", "MC_Convert_quick.cfg")], [("MC_Convert.tla", "MC_Convert_thorough.cfg")], count_all=True),
    "C10": P("model_checking", GEN_RULE, 3000, 80000, [("MC_Convert.tla", "MC_Convert_quick.cfg")], [("MC_Convert.tla", "MC_Convert_thorough.cfg")], count_all=True),
    "C11": P("model_checking", GEN_RULE, 3000, 50000, *O("C11")),
    "C12": P("model_checking", GEN_RULE, 3000, 100000, [("MC_Bid.tla", "MC_Bid_quick.cfg")], [("MC_Bid.tla", "MC_Bid_thorough.cfg")], count_all=True),
    "C13": P("model_checking", GEN_RULE, 3000, 80000, [("MC_Codec.tla", "MC_Codec_C13_quick.cfg")], [("MC_Codec.tla", "MC_Codec_C13_thorough.cfg")], count_all=True),
    "C14": P("model_checking", GEN_RULE, 4000, 100000, [("MC_Codec.tla", "MC_Codec_C14_quick.cfg")], [("MC_Codec.tla", "MC_Codec_C14_thorough.cfg")], count_all=True),
    "C15": P("model_checking", GEN_RULE, 3000, 100000, [("MC_Elem.tla", "MC_Elem_C15_quick.cfg")], [("MC_Elem.tla", "MC_Elem_C15_thorough.cfg")], count_all=True),
    "C16": P("exploration", GEN_RULE, 600, 5000, [("MC_Encl.tla", "MC_Encl_quick.cfg")], [("MC_Encl.tla", "MC_Encl_thorough.cfg")], count_all=True),
    "C17": P("exploration", GEN_RULE, 2500, 30000, [("MC_Elem.tla", "MC_Elem_C17_quick.cfg")], [("MC_Elem.tla", "MC_Elem_C17_thorough.cfg")], count_all=True),
    "C18": P("exploration", GEN_RULE, 500, 5000, [("MC_Elem.tla", "MC_Elem_C15_quick.cfg")], [("MC_Elem.tla", "MC_Elem_C15_thorough.cfg")], count_all=True),
    "C19": P("model_checking", GEN_RULE, 2000, 60000, *O("C19"), count_all=True),
    "C20": P("exploration", GEN_RULE, 3000, 60000, [("MC_Conc.tla", "MC_Conc_safe.cfg")], [("MC_Conc.tla", "MC_Conc_safe.cfg"), ("MC_Conc.tla", "MC_Conc_safe3.cfg")], count_all=True, race=True),
}

for _t in ("quick", "thorough"):
    PROPS["C20"][_t]["neg_models"] = [("MC_Conc.tla", "MC_Conc_negctl.cfg")]

# run kind (C): TLC-simulated behaviours of the full-size Calc machine replayed into the library (num is per TLC worker)
for _p, _q, _t in [("C01", 40, 1500), ("C02", 40, 1500), ("C03", 25, 800), ("C04", 25, 800), ("C06", 25, 800), ("C08", 25, 800), ("C11", 25, 800), ("C12", 25, 800), ("C19", 25, 800),
                   ("C07", 20, 400), ("C09", 20, 400), ("C16", 12, 300), ("C17", 25, 800)]:
    PROPS[_p]["quick"]["calc"] = _q
    PROPS[_p]["thorough"]["calc"] = _t

# the repository's own test vectors (testdata/) as an additional source of inputs: (shards, events per shard); the
# thorough tier takes every line of the files that belong to the property
for _p, _q, _t in [("C01", (2, 800), (8, 20000)), ("C02", (2, 800), (8, 20000)), ("C03", (2, 500), (8, 10000)), ("C04", (2, 1500), (8, 10000)),
                   ("C08", (2, 1000), (4, 2000)), ("C15", (2, 1000), (8, 4000)), ("C16", (2, 150), (8, 200)), ("C17", (1, 270), (2, 200)),
                   ("C18", (2, 150), (8, 2500)), ("C19", (2, 800), (8, 10000))]:
    PROPS[_p]["quick"]["vec"] = _q
    PROPS[_p]["thorough"]["vec"] = _t

# run kind (B): the full-size class model enumerated exhaustively by TLC, one replayed call per state
PROPS["C15"]["quick"]["classes"] = "Classes_C15_quick.cfg"
PROPS["C15"]["thorough"]["classes"] = "Classes_C15_thorough.cfg"
PROPS["C18"]["quick"]["classes"] = "Classes_C18_quick.cfg"
PROPS["C18"]["thorough"]["classes"] = "Classes_C18_thorough.cfg"
PROPS["C04"]["quick"]["classes"] = "Classes_C04_quick.cfg"
PROPS["C04"]["thorough"]["classes"] = "Classes_C04_quick.cfg"
for _p, _c in [("C08", "Classes_C08.cfg"), ("C12", "Classes_codec.cfg"), ("C13", "Classes_codec.cfg"), ("C14", "Classes_codec.cfg"), ("C10", "Classes_C10.cfg"),
               ("C06", "Classes_C06.cfg"), ("C11", "Classes_C11.cfg"), ("C03", "Classes_C03.cfg")]:
    PROPS[_p]["quick"]["classes"] = _c
    PROPS[_p]["thorough"]["classes"] = _c
PROPS["C03"]["quick"]["classes"] = "Classes_C03_quick.cfg"
PROPS["C01"]["thorough"]["classes"] = "Classes_C01.cfg"
PROPS["C02"]["thorough"]["classes"] = "Classes_C01.cfg"

# the foundations of every oracle: BigNat against native integers, the three rounding formulations against each other
PROPS["C02"]["quick"]["models"] = PROPS["C02"]["quick"]["models"] + [("MC_Dec.tla", "MC_Dec_quick.cfg")]
PROPS["C01"]["thorough"]["models"] = PROPS["C01"]["thorough"]["models"] + [("MC_Dec.tla", "MC_Dec.cfg"), ("MC_BigNat.tla", "MC_BigNat.cfg")]
PROPS["C02"]["thorough"]["models"] = PROPS["C02"]["thorough"]["models"] + [("MC_Dec.tla", "MC_Dec.cfg")]
