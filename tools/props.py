"""Per-property configuration of the checks: generator budgets and small-format model configs."""

ARITH_RULE = ("events are real calls recorded by the driver (directed guard/sticky/tie constructions, cancellation, "
              "range edges, boundary pool, random); a step is non-trivial when the exact result is not a member of the "
              "format, so the rounding mode had to choose (TLC verdict ok+); distinct = distinct inputs (op, operands, mode)")

PROPS = {
    "C01": dict(level="model_checking", rule=ARITH_RULE,
                quick=dict(steps=1200, shards=10, model_workers=6, models=[("MC_Arith.tla", "MC_Arith_C01_quick.cfg")]),
                thorough=dict(steps=40000, shards=14, models=[("MC_Arith.tla", "MC_Arith_C01_thorough.cfg")])),
    "C02": dict(level="model_checking", rule=ARITH_RULE,
                quick=dict(steps=1200, shards=10, model_workers=6, models=[("MC_Arith.tla", "MC_Arith_C02_quick.cfg")]),
                thorough=dict(steps=40000, shards=14, models=[("MC_Arith.tla", "MC_Arith_C02_thorough.cfg")])),
}
