#!/usr/bin/env python3
"""setup_cmd: parse every specification module with SANY (offline, nothing depends on /repo)."""
import glob, os, subprocess, sys
spec = os.path.join(os.path.dirname(os.path.dirname(os.path.abspath(__file__))), "spec")
cp = "/opt/veriftools/tla/tla2tools.jar:/opt/veriftools/tla/CommunityModules-deps.jar"
bad = 0
for f in sorted(glob.glob(os.path.join(spec, "*.tla"))):
    p = subprocess.run(["java", "-cp", cp, "tla2sany.SANY", os.path.basename(f)], cwd=spec, capture_output=True, text=True)
    if p.returncode != 0 or "*** Errors" in p.stdout or "Semantic errors" in p.stdout or "Parsing or semantic analysis failed" in p.stdout:
        bad += 1
        print("SANY failed on", f, "\n", p.stdout[-2000:])
print("parsed", len(glob.glob(os.path.join(spec, "*.tla"))), "modules,", bad, "failures")
sys.exit(1 if bad else 0)
