#!/bin/bash
# run every quick check with the given seeds; print one summary line each
cd "$(dirname "$0")/.."
for s in "$@"; do
  for p in C01 C02 C03 C04 C05 C06 C07 C08 C09 C10 C11 C12 C13 C14 C15 C16 C17 C18 C19 C20; do
    out=$(VERIF_SEED=$s VERIF_REPLAYS=/tmp/allquick-replays VERIF_EVIDENCE=/tmp/allquick-evidence python3 tools/check.py $p --tier quick 2>&1); rc=$?
    echo "seed=$s $p rc=$rc $(echo "$out" | tail -1)"
    echo "$out" | grep -m3 "VIOLATION\|INFRA" 
  done
done
