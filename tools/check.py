#!/usr/bin/env python3
"""Orchestrator for the model-based checks of woodsbury/decimal128.

  check.py <Cxx> [--tier quick|thorough]     run the check of one property
  check.py replay <path>                      re-execute a recorded session against the current /repo tree
                                              and validate it with TLC
  check.py selftest                           show that the binding bites (corrupted traces are rejected)

Exit status: 0 held on everything explored; 1 violation (a line VIOLATION property=<id> replay=<path>);
2 infrastructure problem (never a verdict about the code).
"""
import concurrent.futures as cf
import hashlib
import json
import os
import re
import shutil
import subprocess
import sys
import tempfile
import time

VERIF = os.path.dirname(os.path.dirname(os.path.abspath(__file__)))
SPEC = os.path.join(VERIF, "spec")
DRIVER = os.path.join(VERIF, "driver")
EVID = os.environ.get("VERIF_EVIDENCE", os.path.join(VERIF, "evidence"))
REPLAYS = os.environ.get("VERIF_REPLAYS", os.path.join(VERIF, "replays"))
KF_FILE = os.path.join(VERIF, "known_findings.json")
JAVA_CP = "/opt/veriftools/tla/tla2tools.jar:/opt/veriftools/tla/CommunityModules-deps.jar"
NCPU = os.cpu_count() or 8

GOENV = dict(os.environ, GOFLAGS="-mod=mod", GOPROXY="off", GOSUMDB="off", GOTOOLCHAIN="local",
             CGO_ENABLED="0")
# development aid (tools/covmap.py): VERIF_COVER=<dir> builds the driver with statement-coverage counters for the
# library under test and collects them there -- which blocks of /repo do the recorded calls reach at all?
COVER = os.environ.get("VERIF_COVER")
if COVER:
    os.makedirs(COVER, exist_ok=True)
    GOENV["GOCOVERDIR"] = COVER

sys.path.insert(0, os.path.dirname(os.path.abspath(__file__)))
from props import PROPS  # noqa: E402


class Infra(Exception):
    pass


def log(*a):
    print(*a, flush=True)


REPO = os.environ.get("VERIF_REPO", "/repo")     # the tree under test (development aid: a scratch worktree may be named)


def build_driver(scratch, race=False):
    """Build the driver against the current working tree of the repository, hooks on (-tags verif)."""
    out = os.path.join(scratch, "driver.bin")
    src = os.path.join(scratch, "driver-src")
    shutil.copytree(DRIVER, src, ignore=shutil.ignore_patterns("go.sum"))
    gm = open(os.path.join(src, "go.mod")).read().replace("=> /repo", "=> " + REPO)
    open(os.path.join(src, "go.mod"), "w").write(gm)
    if os.path.exists(os.path.join(REPO, "go.sum")):
        shutil.copy(os.path.join(REPO, "go.sum"), os.path.join(src, "go.sum"))
    cmd = ["go", "build", "-tags", "verif", "-o", out]
    if COVER:
        cmd[2:2] = ["-cover", "-coverpkg=github.com/woodsbury/decimal128,verifdriver"]
    env = dict(GOENV)
    if race:
        cmd.insert(2, "-race")
        env["CGO_ENABLED"] = "1"
    cmd.append(".")
    p = subprocess.run(cmd, cwd=src, env=env, capture_output=True, text=True)
    if p.returncode != 0:
        raise Infra("driver build failed (does the repository compile with -tags verif?):\n" + p.stdout + p.stderr)
    return out


def run_tlc(specdir, module, cfg, workers=1, heap="3g", env=None, timeout=3600, extra=()):
    """Run TLC; returns (returncode, stdout)."""
    md = tempfile.mkdtemp(prefix="tlcmeta.", dir=specdir)
    cmd = ["java", "-Xmx" + heap, "-Xss256m", "-XX:+UseParallelGC", "-XX:ParallelGCThreads=2", "-Djava.io.tmpdir=" + md,
           "-cp", JAVA_CP, "tlc2.TLC", "-workers", str(workers), "-metadir", md,
           "-config", cfg, *extra, module]
    e = dict(os.environ)
    if env:
        e.update(env)
    try:
        p = subprocess.run(cmd, cwd=specdir, env=e, capture_output=True, text=True, timeout=timeout)
        return p.returncode, p.stdout + p.stderr
    except subprocess.TimeoutExpired as ex:
        return 124, (ex.stdout or "") if isinstance(ex.stdout, str) else ""
    finally:
        shutil.rmtree(md, ignore_errors=True)


VERDICT_RE = re.compile(r'<<"VERDICT", (\d+), (\d+), "([^"]*)", "([^"]*)">>')
STATES_RE = re.compile(r'(\d+) states generated, (\d+) distinct states found')


def validate_shard(specdir, shard_path, trace_cfg="Trace.cfg", timeout=3600):
    """TLC-validate one ndjson shard; returns dict(consumed, verdicts=[(line, op, verdict)], states, transitions)."""
    n = sum(1 for _ in open(shard_path))
    if n == 0:
        return dict(consumed=0, n=0, verdicts=[], states=0, transitions=0, out="")
    rc, out = run_tlc(specdir, "Trace.tla", trace_cfg, env={"VERIF_TRACE": shard_path}, timeout=timeout)
    verdicts = [(int(m.group(1)), m.group(3), m.group(4)) for m in VERDICT_RE.finditer(out)]
    # de-duplicate (TLC may evaluate an action more than once)
    verdicts = sorted(set(verdicts))
    consumed = None
    m = re.search(r'<<"CONSUMED", (\d+)>>', out)
    if m:
        consumed = int(m.group(1))
    st = STATES_RE.search(out)
    ok = (rc == 0 and "Model checking completed. No error has been found." in out and consumed == n)
    if not ok:
        raise Infra("TLC did not complete trace validation of %s (rc=%s):\n%s" % (shard_path, rc, out[-3000:]))
    return dict(consumed=consumed, n=n, verdicts=verdicts,
                transitions=int(st.group(1)) if st else 0, states=int(st.group(2)) if st else 0)


def run_model(specdir, module, cfg, workers, timeout, heap="6g"):
    t0 = time.time()
    rc, out = run_tlc(specdir, module, cfg, workers=workers, heap=heap, timeout=timeout)
    st = STATES_RE.search(out)
    done = rc == 0 and "Model checking completed. No error has been found." in out
    return dict(module=module, cfg=cfg, ok=done, rc=rc,
                transitions=int(st.group(1)) if st else 0, states=int(st.group(2)) if st else 0,
                wall_s=round(time.time() - t0, 1), tail=out[-2500:] if not done else "")


def run_calc(specdir, drv, tdir, seed, num, workers=4, timeout=900):
    """Run kind (C): TLC simulates the full-size Calc machine; its behaviours are replayed into the real library.
    Returns (trace path, number of distinct behaviours)."""
    md = tempfile.mkdtemp(prefix="tlcmeta.", dir=specdir)
    cmd = ["java", "-Xmx4g", "-Xss256m", "-XX:+UseParallelGC", "-XX:ParallelGCThreads=2", "-Djava.io.tmpdir=" + md, "-cp", JAVA_CP, "tlc2.TLC",
           "-workers", str(workers), "-metadir", md, "-config", "Calc.cfg", "-simulate", "num=%d" % num, "-depth", "60",
           "-seed", str(seed), "Calc.tla"]
    try:
        p = subprocess.run(cmd, cwd=specdir, capture_output=True, text=True, timeout=timeout)
    except subprocess.TimeoutExpired:
        raise Infra("TLC simulation of Calc timed out")
    finally:
        shutil.rmtree(md, ignore_errors=True)
    out = p.stdout
    if "Error" in out and "BEHAVIOUR" not in out:
        raise Infra("TLC simulation of Calc failed:\n" + out[-2000:])
    if re.search(r"Error: (Invariant|Action property|Temporal)", out):
        raise Infra("the Calc machine violates one of its own properties (a fault of the specification):\n" + out[-2000:])
    behs = sorted(set(m.group(1) for m in re.finditer(r'<<"BEHAVIOUR", "(\[.*?\])">>', out)))
    if not behs:
        raise Infra("TLC simulation produced no behaviour:\n" + out[-1500:])
    bpath = os.path.join(tdir, "behaviours.jsonl")
    with open(bpath, "w") as f:
        for b in behs:
            f.write(b.replace('\\"', '"') + "\n")
    tpath = os.path.join(tdir, "shard_calc.ndjson")
    p = subprocess.run([drv, "replaybeh", bpath, tpath], capture_output=True, text=True, env=GOENV, timeout=600)
    if p.returncode == 3 and "did not terminate" in p.stderr:
        log("the driver's watchdog fired during the replay of TLC behaviours: " + p.stderr.strip().splitlines()[-1])
    elif p.returncode != 0:
        raise Infra("driver replaybeh failed:\n" + p.stdout[-2000:] + p.stderr[-2000:])
    os.remove(bpath)
    return tpath, len(behs)


def run_classes(specdir, drv, tdir, cfg, workers=4, timeout=1500):
    """Run kind (B): TLC enumerates the full-size class model exhaustively; every state is one call with its expected
    result, replayed into the real library.  Returns (trace path, number of cases, TLC state count)."""
    rc, out = run_tlc(specdir, "Classes.tla", cfg, workers=workers, heap="4g", timeout=timeout)
    if rc != 0 or "Model checking completed. No error has been found." not in out:
        raise Infra("the class model %s failed (a fault of the specification):\n%s" % (cfg, out[-2500:]))
    behs = sorted(set(m.group(1) for m in re.finditer(r'<<"BEHAVIOUR", "(\[.*?\])">>', out)))
    st = STATES_RE.search(out)
    nstates = int(st.group(2)) if st else 0
    if not behs or len(behs) != nstates:
        raise Infra("class model %s: %d cases printed for %d states" % (cfg, len(behs), nstates))
    bpath = os.path.join(tdir, "classes.jsonl")
    with open(bpath, "w") as f:
        for b in behs:
            f.write(b.replace('\\"', '"') + "\n")
    tpath = os.path.join(tdir, "shard_classes.ndjson")
    p = subprocess.run([drv, "replaybeh", bpath, tpath], capture_output=True, text=True, env=GOENV, timeout=900)
    if p.returncode == 3 and "did not terminate" in p.stderr:
        log("the driver's watchdog fired during the replay of the class cases: " + p.stderr.strip().splitlines()[-1])
    elif p.returncode != 0:
        raise Infra("driver replaybeh (classes) failed:\n" + p.stdout[-2000:] + p.stderr[-2000:])
    os.remove(bpath)
    # large case sets are cut at behaviour boundaries (each behaviour starts with its own SetMode) into parallel shards
    lines = open(tpath).read().splitlines()
    if len(lines) > 6000:
        starts = [k for k, ln in enumerate(lines) if '"op": "SetMode"' in ln or '"op":"SetMode"' in ln]
        nparts = min(8, max(2, len(lines) // 6000))
        cuts = [starts[(len(starts) * j) // nparts] for j in range(nparts)] + [len(lines)]
        os.remove(tpath)
        for j in range(nparts):
            with open(os.path.join(tdir, "shard_classes_%d.ndjson" % j), "w") as f:
                for n_, ln in enumerate(lines[cuts[j]:cuts[j + 1]]):
                    ev = json.loads(ln)
                    ev["i"] = n_ + 1
                    f.write(json.dumps(ev) + "\n")
    return tpath, len(behs), nstates


def load_kf():
    if not os.path.exists(KF_FILE):
        return {"known": [], "fixed": []}
    return json.load(open(KF_FILE))


def input_key(ev):
    d = {k: v for k, v in ev.items() if k not in ("i", "dm")}
    return hashlib.sha1(json.dumps(d, sort_keys=True).encode()).hexdigest()


def session_prefix(events, idx):
    """Minimal replayable session for event idx (0-based): the last SetMode before it, then the event."""
    out = []
    for j in range(idx - 1, -1, -1):
        if events[j].get("op") == "SetMode":
            out.append(events[j])
            break
    out.append(events[idx])
    return out


def write_replay(pid, sess):
    os.makedirs(REPLAYS, exist_ok=True)
    body = "".join(json.dumps(e, sort_keys=True) + "\n" for e in sess)
    h = hashlib.sha1(body.encode()).hexdigest()[:12]
    path = os.path.join(REPLAYS, "%s-%s.ndjson" % (pid, h))
    with open(path, "w") as f:
        f.write(body)
    return path


def kf_match(pid, ev, verdict, kf):
    """A known finding explains a rejected step only if TLC itself classified it (verdict kf:<id>) and the
    id is listed for this property in known_findings.json."""
    if not verdict.startswith("kf:"):
        return None
    kid = verdict.split(":", 2)[1]
    for k in kf.get("known", []):
        if k["id"] == kid and (k["property"] == pid or pid in k.get("properties", [])):
            return k
    return None


def check_property(pid, tier, seed):
    t0 = time.time()
    prop = PROPS[pid]
    tcfg = prop[tier]
    scratch = tempfile.mkdtemp(prefix="verif-%s-" % pid)
    try:
        specdir = os.path.join(scratch, "spec")
        shutil.copytree(SPEC, specdir)
        drv = build_driver(scratch, race=prop.get("race", False))
        tdir = os.path.join(scratch, "traces")
        os.makedirs(tdir)
        shards = tcfg.get("shards", 12)
        genv = dict(GOENV)
        if prop.get("race"):
            genv["GORACE"] = "halt_on_error=0 exitcode=66"
        vec = tcfg.get("vec", (0, 0))
        p = subprocess.run([drv, "gen", "-prop", pid, "-tier", tier, "-seed", str(seed), "-out", tdir,
                            "-shards", str(shards), "-steps", str(tcfg["steps"]),
                            "-testdata", os.path.join(REPO, "testdata"), "-vshards", str(vec[0]), "-vsteps", str(vec[1])],
                           capture_output=True, text=True, env=genv, timeout=tcfg.get("gen_timeout", 1800))
        race_report = None
        if prop.get("race") and (p.returncode == 66 or "WARNING: DATA RACE" in p.stderr):
            race_report = p.stderr[-6000:]
        elif p.returncode == 3 and "did not terminate" in p.stderr:
            log("the driver's watchdog fired: " + p.stderr.strip().splitlines()[-1])    # the recorded call is rejected by the trace spec
        elif p.returncode != 0:
            raise Infra("driver gen failed:\n" + p.stdout[-3000:] + p.stderr[-3000:])
        # the witnesses of the known findings listed for this property are re-executed on every run
        kf0 = load_kf()
        wit = [k["witness"] for k in kf0.get("known", []) if k.get("property") == pid and k.get("witness")]
        if wit:
            win = os.path.join(tdir, "kf_in.jsonl")
            with open(win, "w") as f:
                f.write(json.dumps({"op": "SetMode", "m": 0}) + "\n")
                for w_ in wit:
                    f.write(json.dumps(w_) + "\n")
            pw = subprocess.run([drv, "replay", win, os.path.join(tdir, "shard_kf.ndjson")], capture_output=True, text=True, env=GOENV)
            os.remove(win)
            if pw.returncode != 0:
                raise Infra("driver replay of known-finding witnesses failed:\n" + pw.stdout + pw.stderr)
        nbeh = 0
        if tcfg.get("calc"):
            _, nbeh = run_calc(specdir, drv, tdir, seed, tcfg["calc"])
        ncases = 0
        if tcfg.get("classes"):
            _, ncases, _ = run_classes(specdir, drv, tdir, tcfg["classes"])
        shard_files = sorted(os.path.join(tdir, f) for f in os.listdir(tdir) if f.endswith(".ndjson"))
        grids = {}
        if os.path.exists(os.path.join(tdir, "grids.json")):
            grids = {k: dict(cells_walked=v[0], cells=v[1]) for k, v in json.load(open(os.path.join(tdir, "grids.json"))).items()}

        models = tcfg.get("models", [])
        if os.environ.get("VERIF_SKIP_MODELS"):      # development aid (seeded-change evaluation): the small-format models
            models = []                               # do not depend on the code under test
        model_workers = tcfg.get("model_workers", 4)
        results, mres = [], []
        nproc = max(1, NCPU - (model_workers if models else 0))
        with cf.ThreadPoolExecutor(max_workers=nproc + 1) as ex:
            mfut = None
            if models:
                def run_models():
                    return [run_model(specdir, m[0], m[1], model_workers, tcfg.get("model_timeout", 1500)) for m in models]
                mfut = ex.submit(run_models)
            futs = {ex.submit(validate_shard, specdir, s, prop.get("trace_cfg", "Trace.cfg"),
                              tcfg.get("shard_timeout", 3000)): s for s in shard_files}
            for f in cf.as_completed(futs):
                results.append((futs[f], f.result()))
            if mfut:
                mres = mfut.result()
        negs = []
        for nm in tcfg.get("neg_models", []):
            r = run_model(specdir, nm[0], nm[1], 4, 600)
            if r["ok"] or "is violated" not in r["tail"]:
                raise Infra("negative-control model %s/%s did not produce the expected counterexample" % nm)
            negs.append(dict(module=nm[0], cfg=nm[1], counterexample_found=True))
        for m in mres:
            if not m["ok"]:
                raise Infra("small-format model %s/%s failed (a fault of the specification, not of the code):\n%s"
                            % (m["module"], m["cfg"], m["tail"]))

        kf = load_kf()
        violations, known, specfaults, undecided = [], [], [], 0
        nontrivial_keys, all_keys = set(), set()
        steps = 0
        samples = []
        per_op = {}
        vec_steps = 0
        for path, res in sorted(results):
            events = [json.loads(x) for x in open(path)]
            steps += res["consumed"]
            if os.path.basename(path).startswith("shard_v"):
                vec_steps += res["consumed"]
            vmap = {ln: v for (ln, op, v) in res["verdicts"]}
            for idx, ev in enumerate(events):
                v = vmap.get(idx + 1, "ok")
                k = input_key(ev)
                all_keys.add(k)
                per_op[ev["op"]] = per_op.get(ev["op"], 0) + 1
                if v == "ok":
                    if prop.get("count_all") and ev["op"] != "SetMode":
                        nontrivial_keys.add(k)
                    continue
                if v.startswith("ok+"):
                    nontrivial_keys.add(k)
                    if len(samples) < 3:
                        samples.append({kk: ev[kk] for kk in ev if kk != "i"})
                    continue
                if v.startswith("undecided"):
                    undecided += 1
                    continue
                if v.startswith("specfault"):
                    specfaults.append((path, idx, v))
                    continue
                hit = kf_match(pid, ev, v, kf)
                if hit:
                    known.append((hit, ev))
                    continue
                violations.append((session_prefix(events, idx), v))
        if specfaults:
            pth, idx, v = specfaults[0]
            ev = [json.loads(x) for x in open(pth)][idx]
            raise Infra("specification fault (%d steps), e.g. %s on %s" % (len(specfaults), v, json.dumps(ev)[:800]))
        if steps and undecided > 0.01 * steps:
            raise Infra("too many undecided steps: %d of %d" % (undecided, steps))

        seen_kf = {}
        for hit, ev in known:
            seen_kf.setdefault(hit["id"], (hit, 0))
            seen_kf[hit["id"]] = (hit, seen_kf[hit["id"]][1] + 1)
        for kid, (hit, cnt) in sorted(seen_kf.items()):
            log("KNOWN-FINDING: property=%s %s (%s; %d steps this run)" % (pid, hit["what"], kid, cnt))

        vio_paths = []
        seen = set()
        for sess, v in violations:
            path = write_replay(pid, sess)
            if path in seen:
                continue
            seen.add(path)
            vio_paths.append(path)
            if len(vio_paths) <= 20:
                log("VIOLATION property=%s replay=%s" % (pid, path))
                log("  verdict=%s event=%s" % (v, json.dumps(sess[-1], sort_keys=True)[:600]))
        if len(vio_paths) > 20:
            log("  ... and %d more distinct violating steps" % (len(vio_paths) - 20))

        if race_report:
            rp = os.path.join(REPLAYS, "%s-race-%d.txt" % (pid, seed))
            os.makedirs(REPLAYS, exist_ok=True)
            open(rp, "w").write(race_report)
            vio_paths.append(rp)
            log("VIOLATION property=%s replay=%s" % (pid, rp))
            log("  the race detector reported a data race while goroutines ran pure operations on shared operands")
        if not samples:
            for path, res in sorted(results)[:1]:
                for x in list(open(path))[:2]:
                    samples.append(json.loads(x))
        m_states = sum(m["states"] for m in mres)
        m_trans = sum(m["transitions"] for m in mres)
        t_states = sum(r["states"] for _, r in results)
        t_trans = sum(r["transitions"] for _, r in results)
        evidence = {
            "property_id": pid, "tier": tier, "seed": seed, "level": prop["level"],
            "coverage": {
                "states": m_states + t_states, "transitions": m_trans + t_trans,
                "traces_validated_against_impl": len(results) + nbeh,
                "tlc_generated_behaviours_replayed": nbeh,
                "tlc_enumerated_class_cases_replayed": ncases,
                "evaluations": steps,
                "distinct_nontrivial": len(nontrivial_keys),
                "distinct_inputs": len(all_keys),
                "rule": prop["rule"],
                "samples": samples,
                "exhaustive": False,
                "small_format_models": [{k: m[k] for k in ("module", "cfg", "states", "transitions", "wall_s")} for m in mres],
                "trace_steps": steps, "steps_per_op": per_op, "undecided_steps": undecided,
                "known_finding_steps": len(known),
                "steps_from_repository_test_vectors": vec_steps,
                "enumerated_grids": grids,
                "negative_controls": negs,
                "race_detector": ("on, no report" if prop.get("race") and not race_report else ("REPORTED" if race_report else "off")),
            },
            "assumptions": prop.get("assumptions", []) + [
                "TLC 1.8 evaluates the TLA+ semantic functions correctly (BigNat is cross-checked against native "
                "integers and algebraic laws in MC_BigNat; the rounding definitions against brute-force set semantics in MC_Dec)",
                "the driver passes the logged operands to the library and logs what it returned (raw bits via the verif-tag accessor)"],
            "wall_s": round(time.time() - t0, 1),
            "violations": len(vio_paths),
        }
        os.makedirs(EVID, exist_ok=True)
        with open(os.path.join(EVID, pid + ".json"), "w") as f:
            json.dump(evidence, f, indent=1)
        log("%s %s seed=%d: %d trace steps in %d sessions, %d distinct non-trivial, small-format states %d, "
            "violations %d, known-finding steps %d, undecided %d, %.0fs"
            % (pid, tier, seed, steps, len(results), len(nontrivial_keys), m_states, len(vio_paths), len(known),
               undecided, time.time() - t0))
        return 1 if vio_paths else 0
    finally:
        shutil.rmtree(scratch, ignore_errors=True)


def replay(path):
    scratch = tempfile.mkdtemp(prefix="verif-replay-")
    try:
        specdir = os.path.join(scratch, "spec")
        shutil.copytree(SPEC, specdir)
        drv = build_driver(scratch)
        out = os.path.join(scratch, "replayed.ndjson")
        p = subprocess.run([drv, "replay", path, out], capture_output=True, text=True, env=GOENV)
        if p.returncode != 0:
            raise Infra("driver replay failed:\n" + p.stdout + p.stderr)
        res = validate_shard(specdir, out)
        events = [json.loads(x) for x in open(out)]
        bad = 0
        vmap = {ln: v for (ln, op, v) in res["verdicts"]}
        for idx, ev in enumerate(events):
            v = vmap.get(idx + 1, "ok")
            log("step %d op=%s verdict=%s" % (idx + 1, ev["op"], v))
            if not v.startswith("ok"):
                log("  event: " + json.dumps(ev, sort_keys=True)[:1500])
                if not v.startswith("kf:") and not v.startswith("undecided"):
                    bad += 1
        return 1 if bad else 0
    finally:
        shutil.rmtree(scratch, ignore_errors=True)


def main():
    if len(sys.argv) < 2:
        print(__doc__)
        return 2
    try:
        if sys.argv[1] == "replay":
            return replay(sys.argv[2])
        if sys.argv[1] == "selftest":
            from selftest import selftest
            return selftest()
        pid = sys.argv[1]
        tier = os.environ.get("VERIF_TIER", "quick")
        if "--tier" in sys.argv:
            tier = sys.argv[sys.argv.index("--tier") + 1]
        seed = int(os.environ.get("VERIF_SEED", "1"))
        if pid not in PROPS:
            print("unknown property", pid)
            return 2
        return check_property(pid, tier, seed)
    except Infra as e:
        log("INFRASTRUCTURE-ERROR: " + str(e))
        return 2


if __name__ == "__main__":
    sys.exit(main())
