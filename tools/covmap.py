#!/usr/bin/env python3
"""Which statements of the library do the recorded calls of the checks reach?

  covmap.py [--tier quick] [Cxx ...]     runs the named checks (default: all) with a coverage-instrumented driver
                                         (VERIF_COVER) and writes coverage/summary.json and coverage/uncovered.txt

The implementation-side counterpart of `tlc -coverage`: a block of /repo that no recorded call executes is a place
where no change can be noticed by trace validation.  Development aid; not part of any registered check."""
import collections
import json
import os
import re
import shutil
import subprocess
import sys

VERIF = os.path.dirname(os.path.dirname(os.path.abspath(__file__)))
REPO = os.environ.get("VERIF_REPO", "/repo")


def main():
    args = [a for a in sys.argv[1:] if not a.startswith("--")]
    tier = "quick"
    if "--tier" in sys.argv:
        tier = sys.argv[sys.argv.index("--tier") + 1]
        args = [a for a in args if a != tier]
    props = args or ["C%02d" % i for i in range(1, 21)]
    cov = "/tmp/verif-cover"
    shutil.rmtree(cov, ignore_errors=True)
    os.makedirs(cov)
    env = dict(os.environ, VERIF_COVER=cov, VERIF_SKIP_MODELS="1", VERIF_EVIDENCE="/tmp/verif-cover-evidence",
               VERIF_REPLAYS="/tmp/verif-cover-replays", GOFLAGS="-mod=mod", GOPROXY="off", GOSUMDB="off", GOTOOLCHAIN="local")
    for p in props:
        r = subprocess.run(["python3", os.path.join(VERIF, "tools", "check.py"), p, "--tier", tier], env=env, capture_output=True, text=True, cwd=VERIF)
        print(p, "rc=%d" % r.returncode, r.stdout.strip().splitlines()[-1][:160] if r.stdout.strip() else "", flush=True)
    txt = os.path.join(cov, "all.txt")
    subprocess.run(["go", "tool", "covdata", "textfmt", "-i=" + cov, "-o", txt], env=env, check=True)
    seen = {}
    for line in open(txt):
        m = re.match(r"(.*):(\d+)\.(\d+),(\d+)\.(\d+) (\d+) (\d+)", line)
        if not m or "decimal128" not in m.group(1):
            continue
        key = (m.group(1).split("/")[-1], int(m.group(2)), int(m.group(4)), int(m.group(6)))
        seen[key] = max(seen.get(key, 0), int(m.group(7)))
    per = collections.defaultdict(lambda: [0, 0, 0, 0])
    unc = collections.defaultdict(list)
    for (f, a, b, ns), c in sorted(seen.items()):
        per[f][1] += 1
        per[f][3] += ns
        if c:
            per[f][0] += 1
            per[f][2] += ns
        else:
            unc[f].append((a, b))
    out = os.path.join(VERIF, "coverage")
    os.makedirs(out, exist_ok=True)
    summary = {f: dict(blocks_reached=v[0], blocks=v[1], statements_reached=v[2], statements=v[3]) for f, v in sorted(per.items())}
    tot = [sum(v[i] for v in per.values()) for i in range(4)]
    summary["_total"] = dict(blocks_reached=tot[0], blocks=tot[1], statements_reached=tot[2], statements=tot[3], tier=tier, checks=props)
    json.dump(summary, open(os.path.join(out, "summary.json"), "w"), indent=1)
    with open(os.path.join(out, "uncovered.txt"), "w") as fh:
        for f in sorted(unc):
            src = open(os.path.join(REPO, f)).read().split("\n")
            for a, b in unc[f]:
                fh.write("--- %s:%d-%d\n" % (f, a, b))
                for i in range(a - 1, min(b, a + 5)):
                    fh.write("%5d %s\n" % (i + 1, src[i]))
    print("statements reached: %d of %d (%.2f%%); uncovered blocks listed in coverage/uncovered.txt" % (tot[2], tot[3], 100.0 * tot[2] / tot[3]))
    shutil.rmtree(cov, ignore_errors=True)


if __name__ == "__main__":
    main()
