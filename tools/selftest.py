"""check.py selftest: show that the binding between specification and recorded executions bites.

A short trace of real calls is recorded and validated (must be accepted in full); then single fields are corrupted, one
at a time, and TLC must reject exactly the corrupted step and no other:
  - one byte of a recorded result flipped,
  - the operands of a non-commutative operation swapped,
  - the logged rounding mode changed,
  - the observed DefaultRoundingMode (frame condition) changed,
  - a text output changed by one character,
  - a comparison outcome negated.
"""
import copy
import json
import os
import shutil
import subprocess
import tempfile

import check as C


def selftest():
    scratch = tempfile.mkdtemp(prefix="verif-selftest-")
    try:
        specdir = os.path.join(scratch, "spec")
        shutil.copytree(C.SPEC, specdir)
        drv = C.build_driver(scratch)
        tdir = os.path.join(scratch, "t")
        os.makedirs(tdir)
        events = []
        for pid, n in (("C01", 150), ("C04", 80), ("C06", 40)):
            d = os.path.join(tdir, pid)
            os.makedirs(d)
            p = subprocess.run([drv, "gen", "-prop", pid, "-seed", "5", "-out", d, "-shards", "1", "-steps", str(n)],
                               capture_output=True, text=True, env=C.GOENV)
            if p.returncode != 0:
                raise C.Infra("gen failed " + p.stderr)
            events += [json.loads(x) for x in open(os.path.join(d, "shard_00.ndjson"))]
        for i, e in enumerate(events):
            e["i"] = i + 1

        def run(evs, name):
            path = os.path.join(tdir, name + ".ndjson")
            with open(path, "w") as f:
                for e in evs:
                    f.write(json.dumps(e) + "\n")
            res = C.validate_shard(specdir, path)
            return {ln: v for (ln, op, v) in res["verdicts"] if not v.startswith("ok")}

        base = run(events, "base")
        base = {k: v for k, v in base.items() if not v.startswith("kf:")}
        if base:
            print("selftest: the unmodified trace was not accepted:", base)
            return 1

        def first(pred):
            for i, e in enumerate(events):
                if pred(e):
                    return i
            raise C.Infra("selftest: no suitable event")

        cases = []
        i = first(lambda e: e["op"] in ("Add", "Sub") and e.get("wm") and e.get("pl") == "")
        m = copy.deepcopy(events); m[i]["r"][15] ^= 1
        cases.append(("result byte flipped", i, m))
        i = first(lambda e: e["op"] == "Sub" and e.get("wm") and e["x"] != e["y"] and e["r"][1:] != [0] * 15)
        m = copy.deepcopy(events); m[i]["x"], m[i]["y"] = m[i]["y"], m[i]["x"]
        cases.append(("operands of Sub swapped", i, m))
        # a step whose result differs between two modes: change the logged mode to the other one
        for a in range(len(events) - 1):
            e, f = events[a], events[a + 1]
            if e["op"] in ("Add", "Sub") and e.get("wm") and f.get("wm") and e["op"] == f["op"] and e["x"] == f["x"] \
                    and e["y"] == f["y"] and e["r"] != f["r"]:
                m = copy.deepcopy(events); m[a]["m"] = f["m"]
                cases.append(("logged rounding mode changed", a, m))
                break
        i = first(lambda e: e["op"] in ("Add", "Sub"))
        m = copy.deepcopy(events); m[i]["dm"] = (m[i]["dm"] + 1) % 6
        cases.append(("observed DefaultRoundingMode changed (frame condition)", i, m))
        i = first(lambda e: e["op"] == "String" and len(e["s"]) > 2)
        m = copy.deepcopy(events); m[i]["s"][-1] = 48 + (m[i]["s"][-1] - 47) % 10
        cases.append(("one character of String() changed", i, m))
        i = first(lambda e: e["op"] == "Cmp")
        m = copy.deepcopy(events); m[i]["lt"] = not m[i]["lt"]
        cases.append(("Cmp outcome negated", i, m))

        bad = 0
        for name, idx, evs in cases:
            got = run(evs, "mut")
            got = {k: v for k, v in got.items() if not v.startswith("kf:")}
            ok = set(got) == {idx + 1}
            print("selftest: %-55s -> %s %s" % (name, "rejected at the corrupted step only" if ok else "NOT AS EXPECTED", got if not ok else ""))
            bad += 0 if ok else 1
        return 1 if bad else 0
    finally:
        shutil.rmtree(scratch, ignore_errors=True)
