------------------------------- MODULE MC_Fmt -------------------------------
(***************************************************************************)
(* Kind-(A) model for C07 on a small format: every value x verb x          *)
(* precision {absent, 0..PMax} x width {absent, 0, 3, 9} x all 32 flag     *)
(* subsets.  FormatSem is compared with a native-integer restatement of    *)
(* "the digits of the exact value rounded half-even at the position the    *)
(* precision selects", and with the layout rules stated declaratively.     *)
(***************************************************************************)
EXTENDS Fmt, SmallVals

CONSTANT PMax
VARIABLES stage, x, verb, prec, width, fbits
vars == <<stage, x, verb, prec, width, fbits>>

Init == stage = 0 /\ x \in Values /\ verb = cE /\ prec = 0 /\ width = 0 /\ fbits = 0
Next == /\ stage = 0 /\ stage' = 1 /\ x' = x
        /\ verb' \in FmtVerbs /\ prec' \in (0 - 1)..PMax /\ width' \in {0 - 1, 0, 3, 9} /\ fbits' \in 0..31
Spec == Init /\ [][Next]_vars

Bit(k) == (fbits \div (IF k = 0 THEN 1 ELSE IF k = 1 THEN 2 ELSE IF k = 2 THEN 4 ELSE IF k = 3 THEN 8 ELSE 16)) % 2 = 1
Fl == [plus |-> Bit(0), minus |-> Bit(1), sharp |-> Bit(2), space |-> Bit(3), zero |-> Bit(4)]
Out == FormatSem(x, verb, prec, width, Fl)
Core == SelectSeq(Out, LAMBDA b : b # 32)                                   \* padding spaces (and the space flag) removed
Unsigned == IF Core # << >> /\ Core[1] \in {43, 45} THEN Tail(Core) ELSE Core

DigVal(t) == FoldLeft(LAMBDA acc, b : IF IsDig(b) THEN acc * 10 + (b - 48) ELSE acc, 0, t)

\* ---- the digits are the half-even rounding of the exact value at the selected position ----
\* native value of x in units of 10^(Emin - PMax - 1) so that every rounding position is an integer number of units
UU == Emin - PMax - 1
XV == CI(x) * P10I(x.q - UU)
HalfEven(v, unit) == LET fl == v \div unit  rem == v % unit
                     IN IF 2 * rem > unit \/ (2 * rem = unit /\ fl % 2 = 1) THEN fl + 1 ELSE fl
DigitsExact ==
  (stage = 1 /\ IsFin(x) /\ prec >= 0 /\ ~Fl.zero) =>
    LET txt == Unsigned
        ps == ParseNumber(txt, FALSE, RNE)          \* the printed numeral, read back exactly (all small values are members or tiny sums)
        epos == SelectInSeq(txt, LAMBDA b : b \in {69, 101})
        mant == IF epos = 0 THEN txt ELSE SubSeq(txt, 1, epos - 1)
        printed == DigVal(mant)                       \* digits of the mantissa as an integer
    IN CASE verb \in {cF, cBigF} ->
              \* printed integer = round-half-even(x / 10^-prec)
              printed = HalfEven(XV, P10I((0 - prec) - UU))
         [] verb \in {cE, cBigE} ->
              IF IsZero(x) THEN printed = 0
              ELSE LET nd == NumDigits(x.c)  adj == x.q + nd - 1
                       r == HalfEven(XV, P10I((adj - prec) - UU))
                   IN printed = r \/ (printed * 10 = r)      \* carry into a new leading digit moves the point
         [] OTHER -> TRUE

\* ---- layout ----
LayoutRules ==
  stage = 1 =>
    LET o == Out  n == Len(o)  w == IF width < 0 THEN 0 ELSE width IN
    /\ n >= w
    /\ (n > w => n = Len(FormatSem(x, verb, prec, 0 - 1, Fl)))                        \* no padding beyond the width
    /\ (Fl.minus => \A i \in 1..n : (o[i] = 32 /\ i > 1) => \A j \in i..n : o[j] = 32 \/ i = 1)     \* only trailing blanks (besides a sign blank)
    /\ (IsFin(x) /\ Fl.plus => Core[1] = (IF x.neg THEN 45 ELSE 43))
    /\ (IsFin(x) /\ x.neg => Core[1] = 45)
    /\ (IsFin(x) /\ ~x.neg /\ ~Fl.plus /\ Fl.space => o[1] = 32 \/ (~Fl.minus /\ ~Fl.zero /\ w > Len(Core)))
    /\ (IsFin(x) /\ Fl.sharp => SelectInSeq(o, LAMBDA b : b = 46) # 0)
    /\ (IsFin(x) /\ Fl.zero /\ ~Fl.minus => \A i \in 2..n : o[i] # 32)
    /\ (IsFin(x) /\ verb \in {cBigE, cBigG} => SelectInSeq(o, LAMBDA b : b = 101) = 0)
    /\ (~IsFin(x) => \A i \in 1..n : o[i] # 48)                                         \* never zero-pad NaN / Inf
    /\ (IsFin(x) /\ ~Fl.zero => LET back == ParseSem(SelectSeq(Core, LAMBDA b : TRUE), RNE) IN back.err \in {"none", "range"} /\ back.val.neg = x.neg)
\* %g: exponent form exactly when the rounded exponent is < -4 or >= the precision (6 when absent, 1 for 0)
GSwitch ==
  (stage = 1 /\ IsFin(x) /\ ~IsZero(x) /\ verb \in {cG, cBigG} /\ ~Fl.sharp) =>
    LET g == GDigits(DivPow10(x.c, TrailingZeros(x.c)), x.q + TrailingZeros(x.c), IF prec = 0 THEN 1 ELSE prec)
        ex == g[2] - 1
        p == IF prec < 0 THEN 6 ELSE IF prec = 0 THEN 1 ELSE prec
        hasE == SelectInSeq(Out, LAMBDA b : b \in {69, 101}) # 0
    IN hasE = (ex < 0 - 4 \/ ex >= (IF prec > Len(g[1]) /\ Len(g[1]) >= g[2] THEN Len(g[1]) ELSE p))
\* the specification string is parsed back to the same request
Render == (IF Fl.plus THEN <<43>> ELSE << >>) \o (IF Fl.minus THEN <<45>> ELSE << >>) \o (IF Fl.sharp THEN <<35>> ELSE << >>)
          \o (IF Fl.space THEN <<32>> ELSE << >>) \o (IF Fl.zero THEN <<48>> ELSE << >>)
          \o (IF width < 0 THEN << >> ELSE IF width = 0 THEN << >> ELSE Chars(ToDigits(FromInt(width))))
          \o (IF prec < 0 THEN << >> ELSE <<46>> \o Chars(ToDigits(FromInt(prec)))) \o <<verb>>
SpecRoundTrip ==
  (stage = 1 /\ width # 0) =>
    LET sp == SpecParse(Render) IN
    sp.ok /\ sp.fl = Fl /\ sp.verb = verb /\ sp.prec = prec /\ sp.width = width
=============================================================================
