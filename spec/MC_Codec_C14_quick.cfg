SPECIFICATION Spec
CONSTANTS CmaxI = 19  EminNeg = 2  Emax = 2  Family = "compose"  NMax = 2500  EWin = 6
INVARIANTS ComposeExactOrError ComposeForms
CHECK_DEADLOCK FALSE
