SPECIFICATION Spec
CONSTANTS CmaxI = 0  EminNeg = 6176  Emax = 6111  ModeSet = {2, 5}  Families = {"pow"}
INVARIANTS WellFormed Emit
CHECK_DEADLOCK FALSE
