SPECIFICATION Spec
CONSTANTS CmaxI = 39  EminNeg = 2  Emax = 2
CONSTANT Ops = {"Add", "Sub"}
INVARIANTS CorrectlyRounded QuoRemOK NaNExactlyWhenInvalid Laws CohortIndependent
CHECK_DEADLOCK FALSE
