------------------------------- MODULE MC_Bid -------------------------------
(***************************************************************************)
(* Kind-(A)/(B) model for C12 on the REAL format: the BID field layout.    *)
(* Walks the 17-bit combination field (all of it in the thorough config, a *)
(* stride in the quick one) x sign x coefficient tail classes and checks   *)
(* that Decode is total, lands in the format, and that Encode is its       *)
(* inverse on every finite pattern and on canonical Inf/NaN.               *)
(***************************************************************************)
EXTENDS Bid

CONSTANTS Stride, Chunks
VARIABLES stage, comb, sgn, tail
vars == <<stage, comb, sgn, tail>>

Tails == {"zero", "one", "ones", "mixed"}
Init == stage = 0 /\ comb \in 0..(Chunks - 1) /\ sgn = 0 /\ tail = "zero"
Next == /\ stage = 0 /\ stage' = 1
        /\ comb' \in { c \in 0..131071 : c % Chunks = comb /\ (c \div Chunks) % Stride = 0 }
        /\ sgn' \in {0, 1} /\ tail' \in Tails
Spec == Init /\ [][Next]_vars

\* the pattern: sign(1) comb(17) T(110) -> 16 bytes.  The top 18 bits are bytes 1,2 and the top 2 bits of byte 3.
TailByte(i) == CASE tail = "zero" -> 0 [] tail = "one" -> (IF i = 16 THEN 1 ELSE 0)
                 [] tail = "ones" -> 255 [] tail = "mixed" -> (i * 37 + 11) % 256
Pattern ==
  LET top18 == sgn * 131072 + comb
  IN <<top18 \div 1024, (top18 \div 4) % 256, (top18 % 4) * 64 + (TailByte(3) % 64)>> \o [i \in 1..13 |-> TailByte(i + 3)]

DecodeTotalAndInverse ==
  stage = 1 =>
    LET b == Pattern  v == Decode(b) IN
    /\ IsBytes16(b)
    /\ v.k \in {"fin", "inf", "nan"}
    /\ v.neg = (sgn = 1)
    /\ (v.k = "fin" => IsMember(v) /\ Encode(v) = b)
    /\ (v.k = "inf" => (comb \div 4096) = 30 /\ Decode(Encode(v)) = v)
    /\ (v.k = "nan" => (comb \div 4096) = 31)
    /\ ((comb \div 4096) < 30 => v.k = "fin")
=============================================================================
