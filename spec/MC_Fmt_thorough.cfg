SPECIFICATION Spec
CONSTANTS CmaxI = 39  EminNeg = 2  Emax = 1  PMax = 3
INVARIANTS DigitsExact LayoutRules GSwitch SpecRoundTrip
CHECK_DEADLOCK FALSE
