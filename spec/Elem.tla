-------------------------------- MODULE Elem --------------------------------
(***************************************************************************)
(* Elementary functions: special operands (C15), Sqrt/Cbrt (C17), the Pow  *)
(* shortcut ladder (C18).  The numeric oracle for exp/log type results     *)
(* (C16, general Pow) is in Encl.tla.                                      *)
(***************************************************************************)
EXTENDS Convert

OneV(neg) == Fin(neg, One, 0)
IsOneMag(x) == x.k = "fin" /\ CmpMag(x.c, x.q, One, 0) = 0
CmpOne(x) == CmpMag(x.c, x.q, One, 0)            \* |x| ? 1  for finite x

IsInteger(y) == y.k = "fin" /\ (y.c = << >> \/ y.q >= 0 \/ TrailingZeros(y.c) >= 0 - y.q)
IsOddInt(y) == /\ IsInteger(y) /\ y.c # << >>
               /\ (IF y.q > 0 THEN FALSE ELSE DigitAt(y.c, 0 - y.q) % 2 = 1)

(***************************************************************************)
(* Unary functions on special operands, as Go's math package documents     *)
(* them.  Result: a descriptor Val(v) or [t |-> "num"] for the numeric     *)
(* path.                                                                   *)
(***************************************************************************)
Num == [t |-> "num"]
UnarySpecial(op, x) ==
  IF IsNaN(x) THEN Val(NanFrom("x"))
  ELSE CASE op \in {"Exp", "Exp2", "Exp10"} ->
              IF IsInf(x) THEN Val(IF x.neg THEN ZeroV(FALSE) ELSE InfV(FALSE))
              ELSE IF IsZero(x) THEN Val(OneV(FALSE)) ELSE Num
         [] op = "Expm1" ->
              IF IsInf(x) THEN Val(IF x.neg THEN OneV(TRUE) ELSE InfV(FALSE))
              ELSE IF IsZero(x) THEN Val(ZeroV(x.neg)) ELSE Num
         [] op \in {"Log", "Log2", "Log10"} ->
              IF IsZero(x) THEN Val(InfV(TRUE))
              ELSE IF x.neg THEN Val(NanNew(Cause1(op, x)))
              ELSE IF IsInf(x) THEN Val(InfV(FALSE))
              ELSE IF IsOneMag(x) THEN Val(ZeroV(FALSE)) ELSE Num
         [] op = "Log1p" ->
              IF IsZero(x) THEN Val(ZeroV(x.neg))
              ELSE IF IsInf(x) THEN (IF x.neg THEN Val(NanNew(Cause1(op, x))) ELSE Val(InfV(FALSE)))
              ELSE IF x.neg /\ CmpOne(x) = 0 THEN Val(InfV(TRUE))
              ELSE IF x.neg /\ CmpOne(x) > 0 THEN Val(NanNew(Cause1(op, x))) ELSE Num
         [] op = "Sqrt" ->
              IF IsZero(x) THEN Val(ZeroV(x.neg))
              ELSE IF x.neg THEN Val(NanNew(Cause1(op, x)))
              ELSE IF IsInf(x) THEN Val(InfV(FALSE)) ELSE Num
         [] op = "Cbrt" ->
              IF IsZero(x) THEN Val(ZeroV(x.neg))
              ELSE IF IsInf(x) THEN Val(InfV(x.neg)) ELSE Num

-----------------------------------------------------------------------------
(* C17: r is the correctly rounded k-th root of |d| up to a 1e-20 ulp margin at midpoints:            *)
(*      (r - (1/2 + 1e-20) u)^k <= |d| <= (r + (1/2 + 1e-20) u)^k,  u the format spacing at r.        *)
(* With r = cn * 10^qn in maximal-digit form, u = 10^qn, and A = 2*10^20*cn -+ (10^20 + 2):           *)
(*      r -+ (1/2 + 1e-20) u = A * 10^(qn - 20) / 2                                                    *)
RootOK(d, r, k) ==
  /\ r.k = "fin" /\ r.c # << >>
  /\ LET nm == NormMax(r.c, r.q)
         cn == nm[1]  qn == nm[2]
         base == MulPow10(MulSmall(cn, 2), 20)
         marg == Add(Pow10(20), <<2>>)
         lo == Sub(base, marg)
         hi == Add(base, marg)
         two == IF k = 2 THEN <<4>> ELSE <<8>>
         \* lo^k * 10^(k*(qn-20)) <= 2^k * c * 10^q <= hi^k * 10^(k*(qn-20))
         eR == k * (qn - 20)
         lhs == MulSmall(d.c, two[1])
         m == Min2(eR, d.q)
     IN /\ Le(MulPow10(PowN(lo, k), eR - m), MulPow10(lhs, d.q - m))
        /\ Le(MulPow10(lhs, d.q - m), MulPow10(PowN(hi, k), eR - m))

-----------------------------------------------------------------------------
(* C18: the shortcut ladder of Pow, in the order of math.Pow's special cases.                          *)
(* Result: Val(v) | Rnd(...) (exact value still to be rounded by m) | Num (general path)               *)
PowTen(x) ==      \* <<is |x| a power of ten, its exponent>>
  IF x.k # "fin" \/ x.c = << >> THEN <<FALSE, 0>>
  ELSE LET tz == TrailingZeros(x.c) IN
       IF DivPow10(x.c, tz) = One THEN <<TRUE, x.q + tz>> ELSE <<FALSE, 0>>
HalfV(y) == y.k = "fin" /\ CmpMag(y.c, y.q, <<5>>, 0 - 1) = 0
\* integer value of a small non-negative integer y (caller guards the size), as an Int
SmallInt(y) == ToInt(IF y.q >= 0 THEN MulPow10(y.c, y.q) ELSE DivPow10(y.c, 0 - y.q))
IsSmallInt(y) == IsInteger(y) /\ (y.c = << >> \/ NumDigits(y.c) + y.q <= 7)

\* a * n for |a| <= 10^4, 0 <= n < 10^7 without leaving TLC's 32-bit integers: beyond +-10^6 every exponent means the same
\* (overflow or underflow), so the product is clamped there
ClampMul(a, n) == IF a = 0 \/ n = 0 THEN 0
                  ELSE IF n > 1000000 \div AbsI(a) THEN (IF a > 0 THEN 1000000 ELSE 0 - 1000000) ELSE a * n
PowLadder(x, y, m) ==
  IF IsZero(y) THEN Val(OneV(FALSE))                                     \* Pow(x, +-0) = 1 for any x
  ELSE IF x.k = "fin" /\ ~x.neg /\ IsOneMag(x) THEN Val(OneV(FALSE))     \* Pow(1, y) = 1 for any y
  ELSE IF x.k = "fin" /\ x.neg /\ IsOneMag(x) /\ IsInf(y) THEN Val(OneV(FALSE))
  ELSE IF y.k = "fin" /\ IsOneMag(y) THEN
       (IF ~y.neg THEN (IF IsNaN(x) THEN Val(NanFrom("x")) ELSE Val(x))  \* Pow(x, 1) = x
        ELSE IF IsNaN(x) THEN Val(NanFrom("x"))
        ELSE QuoExact(OneV(FALSE), x, m))                                \* Pow(x, -1) = the rounded reciprocal
  ELSE IF IsNaN(x) THEN Val(NanFrom("x"))
  ELSE IF IsNaN(y) THEN Val(NanFrom("y"))
  ELSE IF IsInf(y) THEN
       (IF IsZero(x) THEN Val(IF y.neg THEN InfV(FALSE) ELSE ZeroV(FALSE))
        ELSE IF IsInf(x) \/ CmpOne(x) > 0 THEN Val(IF y.neg THEN ZeroV(FALSE) ELSE InfV(FALSE))
        ELSE Val(IF y.neg THEN InfV(FALSE) ELSE ZeroV(FALSE)))
  ELSE IF IsZero(x) THEN
       (IF y.neg THEN Val(InfV(x.neg /\ IsOddInt(y))) ELSE Val(ZeroV(x.neg /\ IsOddInt(y))))
  ELSE IF IsInf(x) THEN
       (IF ~x.neg THEN Val(IF y.neg THEN ZeroV(FALSE) ELSE InfV(FALSE))
        ELSE Val(IF y.neg THEN ZeroV(IsOddInt(y)) ELSE InfV(IsOddInt(y))))
  ELSE IF x.neg /\ ~IsInteger(y) THEN Val(NanNew(Cause2("Pow", x, y)))
  ELSE LET pt == PowTen(x)
           neg == x.neg /\ IsOddInt(y)
       IN IF pt[1] /\ pt[2] = 0 /\ IsInteger(y) THEN Val(OneV(neg))           \* (-1)^n = +-1 exactly, negative n included
          ELSE IF pt[1] /\ ~y.neg /\ IsInteger(y) THEN
             (IF IsSmallInt(y) THEN Rnd(neg, One, One, ClampMul(pt[2], SmallInt(y)))
              ELSE IF pt[2] > 0 THEN Val(InfV(neg))                            \* |exponent| astronomically large
              ELSE IF pt[2] = 0 THEN Val(OneV(neg)) ELSE Val(ZeroV(neg)))
          ELSE IF pt[1] /\ pt[2] % 2 = 0 /\ HalfV(y) /\ ~x.neg THEN
             Rnd(FALSE, One, One, IF y.neg THEN 0 - (pt[2] \div 2) ELSE pt[2] \div 2)
          ELSE [t |-> "num", neg |-> neg]
=============================================================================
