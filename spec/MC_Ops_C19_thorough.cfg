SPECIFICATION Spec
CONSTANTS CmaxI = 39  EminNeg = 2  Emax = 2  Family = "canon"  DpMax = 0  SigMax = 0
INVARIANTS CanonNormalForm
CHECK_DEADLOCK FALSE
