SPECIFICATION Spec
CONSTANTS CmaxI = 129  EminNeg = 3  Emax = 3  Family = "canon"  DpMax = 0  SigMax = 0
INVARIANTS CanonNormalForm
CHECK_DEADLOCK FALSE
