SPECIFICATION Spec
CONSTANTS CmaxI = 39  EminNeg = 2  Emax = 2
CONSTANT Ops = {"Mul", "Quo"}
INVARIANTS CorrectlyRounded QuoRemOK NaNExactlyWhenInvalid Laws CohortIndependent
CHECK_DEADLOCK FALSE
