SPECIFICATION Spec
CONSTANTS CmaxI = 0  EminNeg = 6176  Emax = 6111
POSTCONDITION TraceAccepted
CHECK_DEADLOCK FALSE
