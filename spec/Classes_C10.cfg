SPECIFICATION Spec
CONSTANTS CmaxI = 0  EminNeg = 6176  Emax = 6111  ModeSet = {0}  Families = {"int"}
INVARIANTS WellFormed Emit
CHECK_DEADLOCK FALSE
