------------------------------- MODULE MC_Elem -------------------------------
(***************************************************************************)
(* Kind-(A) models for C15 / C17 / C18 (ladder) on a small format.         *)
(*  "root": every positive value: RootOK singles out correctly rounded     *)
(*     roots (native-integer restatement), at least one member qualifies.  *)
(*  "spec": every pair of values: the special-operand tables are total,    *)
(*     NaN appears exactly for NaN operands and domain errors, signs of    *)
(*     zeros/infinities follow the math-package lists, the Pow ladder's    *)
(*     exact cases are exact.                                              *)
(***************************************************************************)
EXTENDS Elem, SmallVals

CONSTANTS Family
VARIABLES stage, x, y, m
vars == <<stage, x, y, m>>
UnaryOps == {"Exp", "Exp2", "Exp10", "Expm1", "Log", "Log2", "Log10", "Log1p", "Sqrt", "Cbrt"}

Init == stage = 0 /\ x \in Values /\ y = NaNOp /\ m = 0
Next == /\ stage = 0 /\ stage' = 1 /\ x' = x
        /\ IF Family = "root" THEN y' = y /\ m' = m ELSE y' \in Values /\ m' \in Modes
Spec == Init /\ [][Next]_vars

\* ---- C17 ----
\* native restatement with a 0.51-ulp window: (100 cn -+ 51)^k * 10^(k qn) vs 100^k * c * 10^q, all scaled by 10^(-k*Emin')
RootWindow(d, r, k) ==
  LET nm == NormMax(r.c, r.q)
      cn == ToInt(nm[1])  qn == nm[2]
      lo == 100 * cn - 51   hi == 100 * cn + 51
      base == Min2(k * qn, d.q)
      L == PowN(FromInt(lo), k)   H == PowN(FromInt(hi), k)
      D == MulSmall(d.c, IF k = 2 THEN 10000 ELSE 1000000)
  IN /\ Le(MulPow10(L, k * qn - base), MulPow10(D, d.q - base))
     /\ Le(MulPow10(D, d.q - base), MulPow10(H, k * qn - base))
RootsExact ==
  (stage = 1 /\ Family = "root" /\ IsFin(x) /\ ~IsZero(x) /\ ~x.neg) =>
    \A k \in {2, 3} :
      LET ok == { r \in Members : ~r.neg /\ ~IsZero(r) /\ r.q = NormMax(r.c, r.q)[2] /\ RootOK(x, r, k) } IN
      /\ \A r \in ok : RootWindow(x, r, k)
      /\ Cardinality(ok) <= 2
      /\ (\A r \in Members : (~r.neg /\ ~IsZero(r) /\ CmpMag(MulSmall(PowN(r.c, k), 1), k * r.q, x.c, x.q) = 0) => RootOK(x, r, k))   \* perfect powers
      /\ (ok # {} \/ \A r \in Members : ~r.neg => ~RootWindow(x, r, k) \/ IsZero(r))

\* ---- C15 / C18 ----
NegDomain(op, v) == CASE op \in {"Log", "Log2", "Log10", "Sqrt"} -> v.neg /\ ~IsZero(v)
                      [] op = "Log1p" -> v.neg /\ ((IsFin(v) /\ CmpOne(v) > 0) \/ IsInf(v))
                      [] OTHER -> FALSE
UnaryTable ==
  (stage = 1 /\ Family = "spec") =>
    \A op \in UnaryOps :
      LET s == UnarySpecial(op, x) IN
      /\ s.t \in {"val", "num"}
      /\ (s.t = "val" /\ s.v.k = "nan") = (IsNaN(x) \/ NegDomain(op, x))                \* NaN exactly for NaN and domain errors
      /\ (s.t = "num" => IsFin(x) /\ ~IsZero(x))                                         \* every special operand is decided
      /\ (IsZero(x) /\ op \in {"Expm1", "Log1p", "Sqrt", "Cbrt"} => s.v = ZeroV(x.neg)) \* f(+-0) = +-0
      /\ (IsZero(x) /\ op \in {"Log", "Log2", "Log10"} => s.v = InfV(TRUE))
      /\ (IsZero(x) /\ op \in {"Exp", "Exp2", "Exp10"} => ResEq(s.v, OneV(FALSE)))
      /\ (IsInf(x) /\ ~x.neg /\ op # "Log1p" => s.v = InfV(FALSE))
      /\ (IsInf(x) /\ x.neg /\ op \in {"Exp", "Exp2", "Exp10"} => s.v = ZeroV(FALSE))
      /\ (IsInf(x) /\ x.neg /\ op = "Expm1" => ResEq(s.v, OneV(TRUE)))
      /\ (IsInf(x) /\ x.neg /\ op = "Cbrt" => s.v = InfV(TRUE))
PowTable ==
  (stage = 1 /\ Family = "spec") =>
    LET ld == PowLadder(x, y, m)
        res == IF ld.t = "num" THEN NaNOp ELSE Resolve(ld, m)
    IN /\ ld.t \in {"val", "rnd", "num"}
       /\ (IsZero(y) => ResEq(res, OneV(FALSE)))
       /\ (IsFin(x) /\ ~x.neg /\ IsOneMag(x) => ResEq(res, OneV(FALSE)))
       /\ (IsFin(y) /\ ~y.neg /\ IsOneMag(y) /\ ~IsNaN(x) => ResEq(res, x))
       /\ (ld.t # "num" => ((res.k = "nan") = ((IsNaN(x) /\ ~IsZero(y)) \/ (IsNaN(y) /\ ~(IsFin(x) /\ ~x.neg /\ IsOneMag(x)))
                                                \/ (IsFin(x) /\ ~IsZero(x) /\ x.neg /\ IsFin(y) /\ ~IsInteger(y)))))
       /\ (ld.t = "num" => IsFin(x) /\ IsFin(y) /\ ~IsZero(x) /\ ~IsZero(y) /\ (~x.neg \/ IsInteger(y)))
       \* zeros and infinities: the math.Pow list
       /\ (IsZero(x) /\ IsFin(y) /\ ~IsZero(y) /\ ~(IsOneMag(y)) =>
             res = (IF y.neg THEN InfV(x.neg /\ IsOddInt(y)) ELSE ZeroV(x.neg /\ IsOddInt(y))))
       /\ (IsInf(y) /\ IsFin(x) /\ ~IsZero(x) /\ CmpOne(x) # 0 => res = (IF (CmpOne(x) > 0) = ~y.neg THEN InfV(FALSE) ELSE ZeroV(FALSE)))
       /\ (IsInf(x) /\ ~x.neg /\ IsFin(y) /\ ~IsZero(y) /\ ~IsOneMag(y) => res = (IF y.neg THEN ZeroV(FALSE) ELSE InfV(FALSE)))
       \* exact powers of ten, recomputed natively
       /\ (ld.t = "rnd" /\ PowTen(x)[1] /\ IsInteger(y) /\ ~y.neg /\ ~IsOneMag(y) =>
             IsRounding(x.neg /\ IsOddInt(y), One, One, PowTen(x)[2] * ((CI(y) * P10I(y.q - Emin)) \div P10I(0 - Emin)), res, m))
=============================================================================
