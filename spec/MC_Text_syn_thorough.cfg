SPECIFICATION Spec
CONSTANTS CmaxI = 129  EminNeg = 3  Emax = 3  Family = "syn"  MaxLen = 6
INVARIANTS SyntaxExact ValueExact ScanAgreesWithParse
CHECK_DEADLOCK FALSE
