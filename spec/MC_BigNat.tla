------------------------------ MODULE MC_BigNat ------------------------------
(* Kind-(A) check of BigNat: every operator against TLC's native integers on  *)
(* all pairs of a small-integer pool, and algebraic laws on a multi-limb pool. *)
EXTENDS BigNat, FiniteSets

CONSTANT SmallMax          \* all integers 0..SmallMax plus the boundary values below

VARIABLES x, y, phase

Bnd == {9, 10, 11, 99, 100, 101, 999, 1000, 1001, 9998, 9999, 10000, 10001, 19999, 20000, 46340, 46341,
        65535, 65536, 99999, 100000, 100001, 9999999, 10000000, 99999999, 100000000, 100000001,
        123456789, 999999999, 1000000000, 1000000001, 2147483646, 2147483647}
Ints == (0..SmallMax) \cup Bnd

D(str) == FromDigits(str)
Rep(d, n) == [i \in 1..n |-> d]
Big == { D(<<1>> \o Rep(0, k)) : k \in {4, 8, 19, 34, 35, 40, 70} }
       \cup { D(Rep(9, k)) : k \in {4, 7, 8, 9, 19, 34, 35, 36, 71} }
       \cup { Add(D(<<1>> \o Rep(0, k)), One) : k \in {4, 8, 34, 39} }
       \cup { D(<<1,2,9,8,0,7,4,2,1,4,6,3,3,7,0,6,9,0,7,1,3,2,6,2,4,0,8,2,3,0,5,0,2,3,9>>),   \* Cmax
              D(<<1,8,4,4,6,7,4,4,0,7,3,7,0,9,5,5,1,6,1,6>>),                                  \* 2^64
              D(<<5,0,0,0,0,0,0,0,0,0,0,0,0,0,0,0,0,0,0,0,1>>),
              D(<<3,1,4,1,5,9,2,6,5,3,5,8,9,7,9,3,2,3,8,4,6,2,6,4,3,3,8,3,2,7,9,5,0,2,8,8,4,1,9,7,1,6,9,3,9,9,3,7,5,1>>),
              <<7>>, <<9999>>, <<0, 1>>, <<1, 1>>, <<9999, 9999>>, <<0, 5000>>, <<4999, 9999, 4999>>, <<1, 0, 0, 5000>> }

vars == <<x, y, phase>>

Init == \/ /\ phase = "int" /\ x \in Ints /\ y \in Ints
        \/ /\ phase = "big" /\ x \in Big /\ y \in Big
Next == UNCHANGED vars
Spec == Init /\ [][Next]_vars

Fits(n) == TRUE
IntOK ==
  phase = "int" =>
  LET a == FromInt(x)  b == FromInt(y) IN
  /\ IsBigNat(a) /\ IsBigNat(b)
  /\ ToInt(a) = x /\ ToInt(b) = y
  /\ Cmp(a, b) = (IF x < y THEN -1 ELSE IF x > y THEN 1 ELSE 0)
  /\ (x <= 1073741823 /\ y <= 1073741823 => ToInt(Add(a, b)) = x + y)
  /\ (x >= y => ToInt(Sub(a, b)) = x - y)
  /\ (x <= 46340 /\ y <= 46340 => ToInt(Mul(a, b)) = x * y)
  /\ (y <= 200000 /\ y >= 1 /\ x <= 10000 => ToInt(MulSmall(a, y)) = x * y)
  /\ (y >= 1 => LET qr == DivMod(a, b) IN ToInt(qr[1]) = x \div y /\ ToInt(qr[2]) = x % y)
  /\ (y >= 1 /\ y <= 200000 => LET qr == DivModSmall(a, y) IN ToInt(qr[1]) = x \div y /\ qr[2] = x % y)
  /\ (y >= 1 => DivModRef(a, b) = DivMod(a, b))
  /\ IsBigNat(Mul(a, b)) /\ IsBigNat(Add(a, b))
  /\ (y >= 1 => LET p == Mul(a, b) qr == DivMod(p, b) IN qr[1] = a /\ qr[2] = << >>)
  /\ FromDigits(ToDigits(a)) = a
  /\ NumDigits(a) = Len(ToDigits(a))
  /\ \A k \in 0..9 : /\ Add(MulPow10(DivPow10(a, k), k), ModPow10(a, k)) = a
                     /\ ModPow10IsZero(a, k) = (ModPow10(a, k) = << >>)
                     /\ DivPow10(MulPow10(a, k), k) = a
                     /\ (x > 0 => NumDigits(MulPow10(a, k)) = NumDigits(a) + k)
                     /\ (k <= 8 => ToInt(ModPow10(a, k)) = x % ToInt(Pow10(k)))
  /\ (x > 0 => TrailingZeros(a) = CHOOSE k \in 0..10 : ModPow10IsZero(a, k) /\ ~ModPow10IsZero(a, k+1))
  /\ IsOdd(a) = (x % 2 = 1)
  /\ FromBytesBE(ToBytesBE(a, 4)) = a
  /\ ToBytesBE(a, 4) = <<x \div 16777216, (x \div 65536) % 256, (x \div 256) % 256, x % 256>>

BigOK ==
  phase = "big" =>
  /\ IsBigNat(x) /\ IsBigNat(y)
  /\ Sub(Add(x, y), y) = x
  /\ Mul(x, y) = Mul(y, x)
  /\ IsBigNat(Mul(x, y))
  /\ Cmp(x, y) = 0 - Cmp(y, x)
  /\ (Cmp(x, y) = 0) = (x = y)
  /\ Cmp(Add(x, One), x) = 1
  /\ LET p == Mul(x, y) qr == DivMod(p, y) IN qr[1] = x /\ qr[2] = << >>
  /\ \A c \in {<<1>>, <<9999>>, <<0, 1>>, Sub(y, One)} :
        Lt(c, y) => LET n == Add(Mul(x, y), c) qr == DivMod(n, y) IN qr[1] = x /\ qr[2] = c
  /\ DivMod(x, y) = DivModRef(x, y)
  /\ LET qr == DivMod(x, y) IN Add(Mul(qr[1], y), qr[2]) = x /\ Lt(qr[2], y)
  /\ Mul(x, Add(y, <<7>>)) = Add(Mul(x, y), MulSmall(x, 7))
  /\ FromDigits(ToDigits(x)) = x
  /\ \A k \in {0, 1, 3, 4, 5, 17, 34, 40} :
        /\ Add(MulPow10(DivPow10(x, k), k), ModPow10(x, k)) = x
        /\ ModPow10IsZero(x, k) = (ModPow10(x, k) = << >>)
        /\ DivPow10(MulPow10(x, k), k) = x
        /\ MulPow10(x, k) = Mul(x, Pow10(k))
        /\ NumDigits(MulPow10(x, k)) = NumDigits(x) + k
  /\ FromBytesBE(ToBytesBE(x, 32)) = x
  /\ PowN(<<2>>, 70) = Pow2(70) /\ PowN(<<5>>, 33) = Pow5(33)
  /\ Mul(Pow2(113), Pow5(113)) = Pow10(113)
=============================================================================
