SPECIFICATION Spec
CONSTANTS CmaxI = 19  EminNeg = 1  Emax = 0  Family = "cmp"  DpMax = 0  SigMax = 0
INVARIANTS OrderExact Antisymmetric Transitive CompareTotal MinMaxExact SignPartition
CHECK_DEADLOCK FALSE
