SPECIFICATION Spec
CONSTANT SmallMax = 120
INVARIANT IntOK
INVARIANT BigOK
CHECK_DEADLOCK FALSE
