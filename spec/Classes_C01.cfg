SPECIFICATION Spec
CONSTANTS CmaxI = 0  EminNeg = 6176  Emax = 6111  ModeSet = {0, 1, 2, 3, 4, 5}  Families = {"bin"}
INVARIANTS WellFormed Emit
CHECK_DEADLOCK FALSE
