SPECIFICATION Spec
CONSTANTS CmaxI = 19  EminNeg = 1  Emax = 1  G = 3  WriterEnabled = FALSE  Calls = 2  PoolC = {5, 19}
INVARIANTS TypeOK ReturnsSequentialResult
PROPERTY C20_ModeOnlyBySet
CHECK_DEADLOCK FALSE
