SPECIFICATION Spec
CONSTANTS CmaxI = 19  EminNeg = 1  Emax = 1  PMax = 2
INVARIANTS DigitsExact LayoutRules GSwitch SpecRoundTrip
CHECK_DEADLOCK FALSE
