------------------------------- MODULE MC_Ops -------------------------------
(***************************************************************************)
(* Kind-(A) models for C04 (order), C08 (quantisation), C11 (scaling) and  *)
(* C19 (canonical form) on a small format.  Family selects the state space *)
(* so that each property has its own configuration.                        *)
(***************************************************************************)
EXTENDS Ops, SmallVals

CONSTANTS Family,          \* "cmp" | "quant" | "scale" | "canon"
          DpMax, SigMax

VARIABLES stage, x, y, z, k, m
vars == <<stage, x, y, z, k, m>>

Init == stage = 0 /\ x \in Values /\ y = NaNOp /\ z = NaNOp /\ k = 0 /\ m = 0
Next == /\ stage = 0 /\ stage' = 1 /\ x' = x
        /\ CASE Family = "cmp"   -> y' \in Values /\ z' \in Values /\ k' = 0 /\ m' = 0
             [] Family = "quant" -> y' = y /\ z' = z /\ k' \in (0 - DpMax)..DpMax /\ m' \in Modes
             [] Family = "scale" -> y' = y /\ z' = z /\ k' \in (0 - DpMax)..DpMax /\ m' \in {0 - 1, 1}   \* m: sign of sig
             [] Family = "canon" -> y' \in Values /\ z' = z /\ k' = 0 /\ m' = 0
Spec == Init /\ [][Next]_vars

On(f) == stage = 1 /\ Family = f
NotNaN(v) == v.k # "nan"

\* ---------------------------------------------------------------- C04
\* an independent statement of the order with native integers (units of 10^Emin; infinities beyond everything)
Big1 == (CmaxI + 1) * P10I(Emax - Emin + 1)
Key(v) == IF v.k = "inf" THEN (IF v.neg THEN 0 - Big1 ELSE Big1) ELSE (IF v.neg THEN 0 - MagU(v) ELSE MagU(v))
OrderExact ==
  On("cmp") =>
    /\ (NotNaN(x) /\ NotNaN(y) =>
          LET s == CmpSem(x, y) IN s = <<Key(x) < Key(y), Key(x) = Key(y), Key(x) > Key(y)>>)
    /\ (~NotNaN(x) \/ ~NotNaN(y) => CmpSem(x, y) = <<FALSE, FALSE, FALSE>> /\ ~EqualSem(x, y))
    /\ (NotNaN(x) /\ NotNaN(y) => EqualSem(x, y) = (Key(x) = Key(y)))
    /\ (NotNaN(x) /\ NotNaN(y) => CmpAbsSem(x, y) = <<AbsI(Key(x)) < AbsI(Key(y)), AbsI(Key(x)) = AbsI(Key(y)), AbsI(Key(x)) > AbsI(Key(y))>>)
Antisymmetric ==
  On("cmp") => LET a == CmpSem(x, y)  b == CmpSem(y, x) IN a[1] = b[3] /\ a[3] = b[1] /\ a[2] = b[2]
Transitive ==
  On("cmp") => /\ (CmpSem(x, y)[1] /\ CmpSem(y, z)[1] => CmpSem(x, z)[1])
               /\ (CmpSem(x, y)[2] /\ CmpSem(y, z)[2] => CmpSem(x, z)[2])
               /\ (CmpSem(x, y)[1] /\ CmpSem(y, z)[2] => CmpSem(x, z)[1])
CompareTotal ==
  On("cmp") => /\ CompareSem(x, y) = 0 - CompareSem(y, x)
               /\ (CompareSem(x, y) <= 0 /\ CompareSem(y, z) <= 0 => CompareSem(x, z) <= 0)
               /\ (IsNaN(x) /\ NotNaN(y) => CompareSem(x, y) = 0 - 1)
               /\ (CompareSem(x, y) = 0) = ((IsNaN(x) /\ IsNaN(y)) \/ EqualSem(x, y))
MinMaxExact ==
  On("cmp") =>
    LET mn == MinMaxSem(x, y, FALSE)  mx == MinMaxSem(x, y, TRUE) IN
    IF IsNaN(x) \/ IsNaN(y) THEN mn.k = "nan" /\ mx.k = "nan"
    ELSE /\ Key(mn) = (IF Key(x) < Key(y) THEN Key(x) ELSE Key(y))
         /\ Key(mx) = (IF Key(x) > Key(y) THEN Key(x) ELSE Key(y))
         /\ (IsZero(x) /\ IsZero(y) => mn.neg = (x.neg \/ y.neg) /\ mx.neg = (x.neg /\ y.neg))
SignPartition ==
  On("cmp") => /\ (NotNaN(x) => SignSem(x) = (IF Key(x) < 0 THEN 0 - 1 ELSE IF Key(x) > 0 THEN 1 ELSE 0))
               /\ Cardinality({p \in {"nan", "inf", "zero", "finnz"} :
                     CASE p = "nan" -> IsNaN(x) [] p = "inf" -> IsInf(x) [] p = "zero" -> IsZero(x)
                       [] p = "finnz" -> IsFin(x) /\ ~IsZero(x)}) = 1

\* ---------------------------------------------------------------- C08
\* quantum 10^-k in units of 10^(Emin - DpMax - 1) so that every quantity is a native integer
UQ == Emin - DpMax - 1
ValQ(v) == CI(v) * P10I(v.q - UQ)
Quantum == P10I((0 - k) - UQ)
QuantExact ==
  (On("quant") /\ IsFin(x) /\ (0 - k) - UQ <= 8) =>
    LET vx == ValQ(x)
        lo == (vx \div Quantum) * Quantum
        hi == IF lo = vx THEN lo ELSE lo + Quantum
        pick(mm, fl) ==
           IF lo = hi THEN lo
           ELSE IF fl /\ 10 * vx < Quantum THEN 0
           ELSE CASE mm = RTZ -> lo [] mm = RAZ -> hi
                  [] mm = RNI -> IF x.neg THEN hi ELSE lo
                  [] mm = RPI -> IF x.neg THEN lo ELSE hi
                  [] mm = RNA -> IF 2 * vx >= lo + hi THEN hi ELSE lo
                  [] mm = RNE -> IF 2 * vx > lo + hi THEN hi ELSE IF 2 * vx < lo + hi THEN lo
                                 ELSE IF (lo \div Quantum) % 2 = 0 THEN lo ELSE hi
        asVal(s) == IF s.v.k = "inf" THEN 0 - 1 ELSE ValQ(s.v)
        repr(t) == t = 0 \/ \E c \in 1..CmaxI, q \in Emin..Emax : c * P10I(q - UQ) = t
        check(s, t) == /\ s.t = "val" /\ s.v.neg = x.neg
                       /\ (IF repr(t) THEN s.v.k = "fin" /\ ValQ(s.v) = t ELSE s.v.k = "inf")
    IN /\ check(RoundSem(x, k, m), pick(m, TRUE))
       /\ check(CeilSem(x, k), pick(RPI, FALSE))
       /\ check(FloorSem(x, k), pick(RNI, FALSE))
QuantLaws ==
  On("quant") =>
    LET r == RoundSem(x, k, m)  c == CeilSem(x, k)  f == FloorSem(x, k) IN
    IF ~IsFin(x) THEN r.t = "same" /\ c.t = "same" /\ f.t = "same"
    ELSE /\ (r.v.k = "fin" => LET r2 == RoundSem(r.v, k, m) IN r2.t = "val" /\ ResEq(r2.v, r.v))      \* idempotent
         /\ (c.v.k = "fin" => LET c2 == CeilSem(c.v, k) IN ResEq(c2.v, c.v))
         /\ (f.v.k = "fin" => LET f2 == FloorSem(f.v, k) IN ResEq(f2.v, f.v))
         /\ (r.v.k = "fin" => WithinQuantum(x, r.v, k))
         /\ (c.v.k = "fin" => WithinQuantum(x, c.v, k) /\ CmpVal(c.v, x) >= 0)
         /\ (f.v.k = "fin" => WithinQuantum(x, f.v, k) /\ CmpVal(f.v, x) <= 0)
         /\ (r.v.k = "fin" => IsMember(r.v) \/ IsZero(r.v))
         /\ \A x2 \in Cohort(x) : ResEq(RoundSem(x2, k, m).v, r.v) /\ ResEq(CeilSem(x2, k).v, c.v)      \* C19

\* ---------------------------------------------------------------- C11
ScaleExact ==
  On("scale") =>
    /\ \A s \in 0..SigMax :
         LET ex == NewExact([neg |-> m < 0, l |-> FromInt(s)], k)
             r == Resolve(ex, RNE)
         IN IF s = 0 THEN ResEq(r, ZeroV(FALSE))
            ELSE IsRounding(m < 0, FromInt(s), One, k, r, RNE)
    /\ (IsFin(x) /\ ~IsZero(x) =>
         LET r == Resolve(LdexpExact(x, k), RNE) IN IsRounding(x.neg, x.c, One, x.q + k, r, RNE))
    /\ (IsFin(x) /\ ~IsZero(x) =>
         \* the fraction and exponent Frexp has to return, and the way back
         LET nd == NumDigits(x.c)
             frac == Fin(x.neg, x.c, 0 - nd)       \* 0.ddd, exponent may lie below Emin in a tiny format: value-level only
             e == x.q + nd
         IN /\ FrexpOK(x, frac, e)
            /\ ResEq(Resolve(Rnd(x.neg, frac.c, One, frac.q + e), RNE), x))

\* ---------------------------------------------------------------- C19
CanonNormalForm ==
  On("canon") =>
    LET cx == CanonV(x)  cy == CanonV(y) IN
    /\ (IsFin(x) => IsMember(cx) /\ ResEq(cx, x) /\ IsCanon(x, cx) /\ CanonV(cx) = cx)
    /\ (IsFin(x) /\ IsFin(y) => ((cx = cy) = ResEq(x, y)))
    /\ (IsFin(x) /\ ~IsZero(x) => \A w \in Cohort(x) : AbsI(w.q) >= AbsI(cx.q))      \* exponent closest to zero
=============================================================================
