SPECIFICATION Spec
CONSTANTS CmaxI = 1299  EminNeg = 9  Emax = 9  Family = "json"  NMax = 0  EWin = 0
INVARIANTS JsonPredicate DecomposeRoundTrip
CHECK_DEADLOCK FALSE
