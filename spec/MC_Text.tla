------------------------------- MODULE MC_Text -------------------------------
(***************************************************************************)
(* Kind-(A) models for C05/C06/C13 on a small format.                      *)
(*  Family "syn": every string up to length MaxLen over a class alphabet:  *)
(*     the automaton accepts exactly the declaratively defined syntax, and *)
(*     the value of every accepted literal is the member the mode selects  *)
(*     for the literal's exact value (recomputed with native integers).    *)
(*  Family "str": every value of the format: default text is exact,        *)
(*     minimal, laid out by the -4..5 rule and parses back to the value.   *)
(***************************************************************************)
EXTENDS Text, SmallVals

CONSTANTS Family, MaxLen
VARIABLES stage, s, m, x
vars == <<stage, s, m, x>>

Alpha == {48, 55, 46, 95, 101, 43, 45, 120}      \* 0 7 . _ e + - x
Tails == UNION { [1..n -> Alpha] : n \in 0..(MaxLen - 1) }
Init == /\ stage = 0 /\ m = 0
        /\ IF Family = "syn" THEN x = NaNOp /\ s \in ({<< >>} \cup { <<a>> : a \in Alpha })
           ELSE s = << >> /\ x \in Values
Next == /\ stage = 0 /\ stage' = 1 /\ x' = x
        /\ IF Family = "syn" THEN (s' \in (IF s = << >> THEN {s} ELSE { s \o t : t \in Tails })) /\ m' \in Modes
           ELSE s' = s /\ m' = m
Spec == Init /\ [][Next]_vars

\* ---- the documented syntax, stated without an automaton ----
SSub(t, a, b) == IF a > b THEN << >> ELSE SubSeq(t, a, b)
IsDigs(t) == /\ Len(t) >= 1 /\ IsDig(t[1]) /\ IsDig(t[Len(t)])
             /\ \A i \in 1..Len(t) : IsDig(t[i]) \/ t[i] = 95
             /\ \A i \in 1..(Len(t) - 1) : ~(t[i] = 95 /\ t[i+1] = 95)
IsMant(t) == \/ IsDigs(t)
             \/ \E k \in 1..Len(t) : /\ t[k] = 46
                                     /\ LET l == SSub(t, 1, k - 1)  r == SSub(t, k + 1, Len(t))
                                        IN (IsDigs(l) /\ (r = << >> \/ IsDigs(r))) \/ (l = << >> /\ IsDigs(r))
IsExpo(t) == IsDigs(t) \/ (Len(t) >= 2 /\ t[1] \in {43, 45} /\ IsDigs(SSub(t, 2, Len(t))))
IsNum(t) == \/ IsMant(t)
            \/ \E k \in 1..Len(t) : t[k] \in {69, 101} /\ IsMant(SSub(t, 1, k - 1)) /\ IsExpo(SSub(t, k + 1, Len(t)))

SyntaxExact == (stage = 1 /\ Family = "syn") => ((Run(s).st \in Accepting) = IsNum(s))

\* ---- value of an accepted literal with native integers ----
DigVal(t) == FoldLeft(LAMBDA acc, b : IF IsDig(b) THEN acc * 10 + (b - 48) ELSE acc, 0, t)
NDig(t) == Len(SelectSeq(t, IsDig))
ValueExact ==
  (stage = 1 /\ Family = "syn" /\ s # << >>) =>
    LET signed == s[1] \in {43, 45}
        neg == s[1] = 45
        body == IF signed THEN SSub(s, 2, Len(s)) ELSE s
        ps == ParseSem(s, m)
    IN IF ~IsNum(body) THEN ps.err = "syntax"
       ELSE LET ks == { k \in 1..Len(body) : body[k] \in {69, 101} }
                ke == IF ks = {} THEN Len(body) + 1 ELSE CHOOSE k \in ks : TRUE
                mant == SSub(body, 1, ke - 1)
                ex == SSub(body, ke + 1, Len(body))
                ds == { k \in 1..Len(mant) : mant[k] = 46 }
                kd == IF ds = {} THEN Len(mant) + 1 ELSE CHOOSE k \in ds : TRUE
                N == DigVal(mant)
                nf == NDig(SSub(mant, kd + 1, Len(mant)))
                E == (IF ex # << >> /\ ex[1] = 45 THEN 0 - DigVal(ex) ELSE DigVal(ex)) - nf
            IN IF N = 0 THEN ps.err = "none" /\ ResEq(ps.val, ZeroV(neg))
               ELSE /\ IsRounding(neg, FromInt(N), One, E, ps.val, m)
                    /\ ps.err = (IF ps.val.k = "inf" THEN "range" ELSE "none")

\* ---- the stream scanner against Parse: on every string (no letters of inf/nan, no white space in the alphabet) ----
\* a well-formed literal is scanned to the same outcome and consumed entirely; a string of numeral characters that is
\* not well-formed is refused (or the stream ends after a lone sign); scanning "s s" with two receivers gives the value twice;
\* whatever the input, the scanner stops inside the stream and never before its starting point
HasX == \E i \in 1..Len(s) : s[i] = 120
ScanAgreesWithParse ==
  (stage = 1 /\ Family = "syn" /\ s # << >>) =>
    LET ps == ParseSem(s, m)
        o == ScanOne(s, 1, m)
        two == ScanMany(s \o <<32>> \o s, 1, 2, m)
    IN /\ o.p >= 1 /\ o.p <= Len(s) + 1
       /\ (ps.err # "syntax") => (o.err = ps.err /\ o.val = ps.val /\ o.p = Len(s) + 1)
       /\ (ps.err = "syntax" /\ ~HasX) => (o.err \in {"syntax", "eof"} /\ o.p = Len(s) + 1)
       /\ (ps.err = "syntax" /\ HasX) => o.p <= 1 + Len(s)
       /\ (ps.err = "none") => (Len(two.outs) = 2 /\ two.outs[1].val = ps.val /\ two.outs[2].val = ps.val /\ two.p = 2 * Len(s) + 2)
       /\ (ps.err = "range") => (Len(two.outs) = 1 /\ two.p = Len(s) + 1)
       /\ ScanOne(<<32, 9>> \o s, 1, m).err = o.err

\* ---- C06 on every value ----
ParseBack(t) == ParseSem(t, RNE)
TextOf(d) == StringSem(d)
StringExactMinimalRoundTrip ==
  (stage = 1 /\ Family = "str") =>
    LET t == TextOf(x)  back == ParseBack(t) IN
    /\ back.err = "none"
    /\ (IF x.k = "nan" THEN back.val.k = "nan" ELSE ResEq(back.val, x))
    /\ ParseBack(ShortestE(x)).err = "none" /\ ParseBack(ShortestF(x)).err = "none"
    /\ (x.k # "nan" => ResEq(ParseBack(ShortestE(x)).val, x) /\ ResEq(ParseBack(ShortestF(x)).val, x))
    /\ (IsFin(x) /\ ~IsZero(x) =>
          LET sg == Sig(x)  nd == Len(sg.D)  adj == sg.q + nd - 1
              hasE == \E i \in 1..Len(t) : t[i] = 101
              digitsIn == SelectSeq(SSub(t, 1, IF hasE THEN (CHOOSE i \in 1..Len(t) : t[i] = 101) - 1 ELSE Len(t)), IsDig)
          IN /\ sg.D[1] # 0 /\ sg.D[nd] # 0                                  \* no superfluous digits
             /\ CmpMag(FromDigits(sg.D), sg.q, x.c, x.q) = 0                   \* exact
             /\ hasE = (adj < -4 \/ adj >= 6)                                  \* the float64 %v layout rule
             /\ (hasE => Len(digitsIn) = nd)                                   \* mantissa carries exactly the digits
             \* no shorter digit string denotes the value: fewer digits cannot, because the last digit is non-zero
             /\ \A w \in Cohort(x) : TextOf(w) = t)                            \* C19: text is the same for the whole cohort
=============================================================================
