-------------------------------- MODULE Arith --------------------------------
(***************************************************************************)
(* Semantic functions of the arithmetic entry points, laid out like the    *)
(* code's dispatch: special operands first, then zeros, then the numeric   *)
(* path through exact arithmetic and RoundRat.  Operands and results are   *)
(* abstract values (Dec.tla).  A NaN result carries where it comes from:   *)
(* src = "x" / "y" (that operand is propagated) or "new" with the cause    *)
(* text that Payload().String() must print (C15).                          *)
(***************************************************************************)
EXTENDS Dec

NanFrom(src) == [k |-> "nan", neg |-> FALSE, c |-> << >>, q |-> 0, src |-> src, pl |-> ""]
NanNew(pl)   == [k |-> "nan", neg |-> FALSE, c |-> << >>, q |-> 0, src |-> "new", pl |-> pl]

ClassName(v) ==
  LET base == IF v.k = "inf" THEN "Infinite" ELSE IF v.c = << >> THEN "Zero" ELSE "Finite"
  IN IF v.neg THEN "-" \o base ELSE base
Cause2(op, x, y) == op \o "(" \o ClassName(x) \o ", " \o ClassName(y) \o ")"
Cause1(op, x)    == op \o "(" \o ClassName(x) \o ")"

Negate(v) == [v EXCEPT !.neg = ~v.neg]

(* Exact descriptors: either a finished value, or an exact magnitude still to be rounded.        *)
(*   [t |-> "val", v |-> value]     [t |-> "rnd", neg, n, d, e]   meaning (-1)^neg * n/d * 10^e  *)
Val(v) == [t |-> "val", v |-> v]
Rnd(neg, n, d, e) == [t |-> "rnd", neg |-> neg, n |-> n, d |-> d, e |-> e]
Resolve(ex, m) == IF ex.t = "val" THEN ex.v ELSE RoundRat(ex.neg, ex.n, ex.d, ex.e, m)
\* does the observed value r agree with the descriptor?  both rounding formulations are consulted:
\* "ok" / "reject" / "specfault" (the two formulations disagree: a fault of this specification)
\* "ok+" marks a step where the mode really had to choose (the exact value is not a member): these are
\* the non-trivial steps counted in the evidence.
Agrees(ex, r, m) ==
  IF ex.t = "val" THEN (IF ResEq(ex.v, r) THEN "ok" ELSE "reject")
  ELSE LET rr == RoundRat(ex.neg, ex.n, ex.d, ex.e, m)
           f == ResEq(rr, r)
           g == r.k # "nan" /\ IsRounding(ex.neg, ex.n, ex.d, ex.e, r, m)
           inexact == rr.k = "inf" \/ CmpVC(ex.n, ex.d, ex.e, rr.c, rr.q) # 0
       IN IF f /\ g THEN (IF inexact THEN "ok+" ELSE "ok") ELSE IF ~f /\ ~g THEN "reject" ELSE "specfault"

\* exact signed sum of two finite non-zero values as <<neg, magnitude n, exponent e>>; n = << >> on cancellation
ExactSum(x, yneg, y) ==
  LET lo == Min2(x.q, y.q)
      a  == MulPow10(x.c, x.q - lo)
      b  == MulPow10(y.c, y.q - lo)
  IN IF x.neg = yneg THEN <<x.neg, Add(a, b), lo>>
     ELSE LET c == Cmp(a, b)
          IN IF c = 0 THEN <<FALSE, << >>, lo>>
             ELSE IF c > 0 THEN <<x.neg, Sub(a, b), lo>> ELSE <<yneg, Sub(b, a), lo>>

AddSubExact(x, y, m, sub) ==
  LET yneg == IF sub THEN ~y.neg ELSE y.neg
      opn  == IF sub THEN "Sub" ELSE "Add"
  IN IF IsNaN(x) THEN Val(NanFrom("x"))
     ELSE IF IsNaN(y) THEN Val(NanFrom("y"))
     ELSE IF IsInf(x) THEN (IF IsInf(y) /\ x.neg # yneg THEN Val(NanNew(Cause2(opn, x, y))) ELSE Val(InfV(x.neg)))
     ELSE IF IsInf(y) THEN Val(InfV(yneg))
     ELSE IF IsZero(x) /\ IsZero(y) THEN Val(ZeroV(x.neg /\ yneg))  \* -0 only when both effective signs are negative
     ELSE IF IsZero(x) THEN Val(Fin(yneg, y.c, y.q))                 \* the other operand, value and sign unchanged
     ELSE IF IsZero(y) THEN Val(x)
     ELSE LET s == ExactSum(x, yneg, y)
          IN IF s[2] = << >> THEN Val(ZeroV(m = RNI))                \* exact cancellation: +0, -0 under ToNegativeInf
             ELSE Rnd(s[1], s[2], One, s[3])
AddExact(x, y, m) == AddSubExact(x, y, m, FALSE)
SubExact(x, y, m) == AddSubExact(x, y, m, TRUE)
AddSem(x, y, m) == Resolve(AddExact(x, y, m), m)
SubSem(x, y, m) == Resolve(SubExact(x, y, m), m)

MulExact(x, y, m) ==
  LET neg == x.neg # y.neg
  IN IF IsNaN(x) THEN Val(NanFrom("x"))
     ELSE IF IsNaN(y) THEN Val(NanFrom("y"))
     ELSE IF IsInf(x) \/ IsInf(y) THEN
            (IF IsZero(x) \/ IsZero(y) THEN Val(NanNew(Cause2("Mul", x, y))) ELSE Val(InfV(neg)))
     ELSE IF IsZero(x) \/ IsZero(y) THEN Val(ZeroV(neg))
     ELSE Rnd(neg, Mul(x.c, y.c), One, x.q + y.q)
MulSem(x, y, m) == Resolve(MulExact(x, y, m), m)

QuoExact(x, y, m) ==
  LET neg == x.neg # y.neg
  IN IF IsNaN(x) THEN Val(NanFrom("x"))
     ELSE IF IsNaN(y) THEN Val(NanFrom("y"))
     ELSE IF IsInf(x) THEN (IF IsInf(y) THEN Val(NanNew(Cause2("Quo", x, y))) ELSE Val(InfV(neg)))
     ELSE IF IsInf(y) THEN Val(ZeroV(neg))
     ELSE IF IsZero(y) THEN (IF IsZero(x) THEN Val(NanNew(Cause2("Quo", x, y))) ELSE Val(InfV(neg)))
     ELSE IF IsZero(x) THEN Val(ZeroV(neg))
     ELSE Rnd(neg, x.c, y.c, x.q - y.q)
QuoSem(x, y, m) == Resolve(QuoExact(x, y, m), m)

(***************************************************************************)
(* QuoRem (C03): q = trunc(x/y), rounded by m only if it does not fit;     *)
(* r = x - y*trunc(x/y), sign of x, |r| < |y|.  The exact remainder always *)
(* is a multiple of 10^min(qx,qy); when its coefficient does not fit (the  *)
(* divisor has many more digits than the format's quantum at x) it is      *)
(* rounded by m as well -- the statement's "exactly" cannot apply there.   *)
(* Result <<quotient, remainder>>.                                         *)
(***************************************************************************)
QuoRemExact(x, y, m) ==
  LET qneg == x.neg # y.neg
  IN IF IsNaN(x) THEN <<Val(NanFrom("x")), Val(NanFrom("x"))>>
     ELSE IF IsNaN(y) THEN <<Val(NanFrom("y")), Val(NanFrom("y"))>>
     ELSE IF IsInf(x) THEN
            (IF IsInf(y) THEN <<Val(NanNew(Cause2("QuoRem", x, y))), Val(NanNew(Cause2("QuoRem", x, y)))>>
             ELSE <<Val(InfV(qneg)), Val(NanNew(Cause2("QuoRem", x, y)))>>)
     ELSE IF IsInf(y) THEN <<Val(ZeroV(qneg)), Val(x)>>
     ELSE IF IsZero(y) THEN
            (IF IsZero(x) THEN <<Val(NanNew(Cause2("QuoRem", x, y))), Val(NanNew(Cause2("QuoRem", x, y)))>>
             ELSE <<Val(InfV(qneg)), Val(NanNew(Cause2("QuoRem", x, y)))>>)
     ELSE IF IsZero(x) THEN <<Val(ZeroV(qneg)), Val(ZeroV(x.neg))>>
     ELSE LET lo == Min2(x.q, y.q)
              a  == MulPow10(x.c, x.q - lo)
              b  == MulPow10(y.c, y.q - lo)
              qr == DivMod(a, b)
          IN <<(IF qr[1] = << >> THEN Val(ZeroV(qneg)) ELSE Rnd(qneg, qr[1], One, 0)),
               (IF qr[2] = << >> THEN Val(ZeroV(x.neg)) ELSE Rnd(x.neg, qr[2], One, lo))>>
QuoRemSem(x, y, m) == LET ex == QuoRemExact(x, y, m) IN <<Resolve(ex[1], m), Resolve(ex[2], m)>>

NegSem(x) == Negate(x)                          \* sign bit only, also on NaN/Inf (bits checked by the trace spec)
AbsSem(x) == [x EXCEPT !.neg = FALSE]

\* Min/Max (C04): NaN if either is NaN; -0 ordered below +0; otherwise the exact minimum / maximum
MinMaxSem(x, y, max) ==
  IF IsNaN(x) \/ IsNaN(y) THEN NanFrom("any")
  ELSE LET c == CmpVal(x, y)
           xFirst == IF c # 0 THEN c < 0 ELSE (x.neg \/ ~y.neg)       \* x <= y in the order with -0 < +0
       IN IF max THEN (IF xFirst THEN y ELSE x) ELSE (IF xFirst THEN x ELSE y)
=============================================================================
