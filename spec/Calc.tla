-------------------------------- MODULE Calc --------------------------------
(***************************************************************************)
(* The calculator session as a free-running state machine at the REAL      *)
(* format size (run kind C: specification -> code).  TLC simulates it;     *)
(* every behaviour (a program over a register file, operands taken from a  *)
(* specification-defined boundary Pool or fed back from earlier results,   *)
(* with the value the specification expects after each step) is printed as *)
(* JSON and replayed into the real library by the driver, which compares   *)
(* the register after EVERY step.                                          *)
(* Each step is split in two so that the simulator chooses parameters      *)
(* cheaply (Choose) and evaluates the semantic function once (Apply).      *)
(***************************************************************************)
EXTENDS Bid, Elem, Json, TLC

CONSTANTS Depth, NReg

VARIABLES reg, mode, pick, hist
vars == <<reg, mode, pick, hist>>

CoefAtoms ==
  { << >>, <<1>>, <<2>>, <<3>>, <<4>>, <<5>>, <<7>>, <<8>>, <<9>>, <<16>>, <<25>>, <<64>>, <<125>>, <<1024>>, Pow2(20), Pow2(40), Pow2(100), Pow2(112), Cmax, Sub(Cmax, One), CmaxP1Div10, Sub(CmaxP1Div10, One),
    Pow2(63), Pow2(64), Add(Pow2(64), One), Pow2(110), Sub(Pow2(113), One), Pow2(113) }
  \cup { Pow10(k) : k \in 1..34 } \cup { Sub(Pow10(k), One) : k \in 1..34 } \cup { Add(Pow10(k), One) : k \in 1..33 }
  \cup { MulSmall(Pow10(k), 5) : k \in 0..33 } \cup { Add(MulSmall(Pow10(k), 5), One) : k \in 1..33 } \cup { Sub(MulSmall(Pow10(k), 5), One) : k \in 1..33 }
ExpAtoms == {Emin, Emin + 1, Emin + 19, Emin + 34, Emin + 35, 0 - 36, 0 - 35, 0 - 34, 0 - 20, 0 - 19, 0 - 1, 0, 1, 19, 20, 34, 35, 36,
             Emax - 35, Emax - 34, Emax - 1, Emax}
PoolSeq == SetToSeq({ Fin(neg, c, q) : neg \in BOOLEAN, c \in CoefAtoms, q \in ExpAtoms } \cup { InfV(FALSE), InfV(TRUE) })
PoolN == Len(PoolSeq)

BinOps == {"Add", "Sub", "Mul", "Quo"}
UnOps == {"Neg", "Abs", "Canonical"}
Regs == 1..NReg

Init == /\ reg = [r \in Regs |-> ZeroV(FALSE)] /\ mode = RNE /\ pick = [op |-> "none"] /\ hist = << >>

\* three small steps per operation: the kind, its parameters, its effect (so that the simulator, which picks uniformly
\* among the successors, gives every kind of operation the same weight and evaluates one semantic function per step)
Kinds == {"Load", "Bin", "BinDefault", "Un", "Round", "MinMax", "SetMode", "QuoRem", "Text", "Scale",
          "Quant", "Cmp", "Codec", "Int", "Frexp", "Pow", "Root", "ExpLog", "F64", "FmtE"}
IntTypes == {"int64", "int32", "uint64", "uint32"}
ChooseKind ==
  /\ pick.op = "none" /\ Len(hist) < Depth
  /\ IF Len(hist) < NReg THEN pick' = [op |-> "kind", kind |-> "Load"]        \* every behaviour starts by filling the registers
     ELSE \E k \in Kinds : pick' = [op |-> "kind", kind |-> k]
  /\ UNCHANGED <<reg, mode, hist>>
ChooseParams ==
  /\ pick.op = "kind"
  /\ CASE pick.kind = "Load" -> \E d \in (IF Len(hist) < NReg THEN {Len(hist) + 1} ELSE Regs) :
                                    pick' = [op |-> "Load", d |-> d, i |-> RandomElement(1..PoolN)]
       [] pick.kind = "Bin" -> \E f \in BinOps, a \in Regs, b \in Regs, d \in Regs, m \in Modes :
                                 pick' = [op |-> f, a |-> a, b |-> b, d |-> d, m |-> m, wm |-> TRUE]
       [] pick.kind = "BinDefault" -> \E f \in BinOps, a \in Regs, b \in Regs, d \in Regs :
                                 pick' = [op |-> f, a |-> a, b |-> b, d |-> d, m |-> 0, wm |-> FALSE]
       [] pick.kind = "Un" -> \E f \in UnOps, a \in Regs, d \in Regs : pick' = [op |-> f, a |-> a, d |-> d]
       [] pick.kind = "Round" -> \E a \in Regs, d \in Regs, m \in Modes, dp \in {0 - 40, 0 - 6, 0 - 1, 0, 1, 2, 17, 33, 34, 40} :
                                 pick' = [op |-> "Round", a |-> a, d |-> d, m |-> m, dp |-> dp]
       [] pick.kind = "MinMax" -> \E f \in {"Min", "Max"}, a \in Regs, b \in Regs, d \in Regs : pick' = [op |-> f, a |-> a, b |-> b, d |-> d]
       [] pick.kind = "SetMode" -> \E m \in Modes : pick' = [op |-> "SetMode", m |-> m]
       [] pick.kind = "QuoRem" -> \E a \in Regs, b \in Regs, d \in Regs, d2 \in Regs, m \in Modes :
                                 d # d2 /\ pick' = [op |-> "QuoRem", a |-> a, b |-> b, d |-> d, d2 |-> d2, m |-> m, wm |-> TRUE]
       [] pick.kind = "Text" -> \E a \in Regs, d \in Regs : pick' = [op |-> "Text", a |-> a, d |-> d]          \* Parse(String(reg[a]))
       [] pick.kind = "Scale" -> \E a \in Regs, d \in Regs, k \in {0 - 6200, 0 - 40, 0 - 35, 0 - 1, 0, 1, 34, 35, 6100} :
                                 pick' = [op |-> "Ldexp", a |-> a, d |-> d, k |-> k]
       [] pick.kind = "Quant" -> \E f \in {"Ceil", "Floor"}, a \in Regs, d \in Regs, dp \in {0 - 40, 0 - 1, 0, 1, 2, 33, 34, 40} :
                                 pick' = [op |-> f, a |-> a, d |-> d, dp |-> dp]
       [] pick.kind = "Cmp" -> \E a \in Regs, b \in Regs : pick' = [op |-> "Cmp", a |-> a, b |-> b]         \* an observation: no register changes
       [] pick.kind = "Codec" -> \E f \in {"Binary", "Json", "Sql"}, a \in Regs, d \in Regs : pick' = [op |-> f, a |-> a, d |-> d]   \* decode(encode(reg[a]))
       [] pick.kind = "Int" -> \E ty \in IntTypes, a \in Regs, d \in Regs : pick' = [op |-> "Int", ty |-> ty, a |-> a, d |-> d]    \* FromInt(ToInt(reg[a]))
       [] pick.kind = "Frexp" -> \E a \in Regs, d \in Regs : pick' = [op |-> "Frexp", a |-> a, d |-> d]      \* Ldexp(Frexp(reg[a]))
       [] pick.kind = "Pow" -> \E a \in Regs, b \in Regs, d \in Regs, m \in Modes : pick' = [op |-> "Pow", a |-> a, b |-> b, d |-> d, m |-> m, wm |-> TRUE]
       [] pick.kind = "Root" -> \E f \in {"SqrtSq", "CbrtCube"}, a \in Regs, d \in Regs : pick' = [op |-> f, a |-> a, d |-> d]       \* Sqrt(x*x), Cbrt(x*x*x) where the power is exact
       [] pick.kind = "ExpLog" -> \E f \in {"Exp10", "Log10", "Exp2", "Log2"}, a \in Regs, d \in Regs : pick' = [op |-> f, a |-> a, d |-> d]   \* the exactly representable results
       [] pick.kind = "F64" -> \E a \in Regs, d \in Regs : pick' = [op |-> "F64", a |-> a, d |-> d]          \* FromFloat64(Float64(reg[a])) for integers below 2^53
       [] pick.kind = "FmtE" -> \E a \in Regs, d \in Regs, pr \in {34, 40} : pick' = [op |-> "FmtE", a |-> a, d |-> d, prec |-> pr]   \* Parse(Format(reg[a], 'e', prec)): all digits are printed
  /\ UNCHANGED <<reg, mode, hist>>
Choose == ChooseKind \/ ChooseParams

\* the composite steps that have an exactly specified result only for some operands
SmallIntOf(x) ==      \* x is an integer of magnitude below 10^6: its value, or -1 (as a pair <<ok, neg, n>>)
  IF x.k # "fin" THEN <<FALSE, FALSE, 0>>
  ELSE IF x.c = << >> THEN <<TRUE, FALSE, 0>>
  ELSE IF x.q < 0 \/ NumDigits(x.c) + x.q > 6 THEN <<FALSE, FALSE, 0>>
  ELSE <<TRUE, x.neg, ToInt(MulPow10(x.c, x.q))>>
IsPow10C(c) == c # << >> /\ c = Pow10(NumDigits(c) - 1)
Log2Of(c) == IF \E n \in 0..113 : Pow2(n) = c THEN CHOOSE n \in 0..113 : Pow2(n) = c ELSE 0 - 1
\* (the elementary functions promise exact results for exactly representable cases under the default nearest-even mode only:
\* under another DefaultRoundingMode a result computed a hair below 11 may legitimately come back as 10.99...9)
Applicable(p) ==
  LET x == reg[p.a] IN
  CASE p.op \in {"SqrtSq", "CbrtCube", "Exp10", "Exp2", "Log10", "Log2"} /\ mode # RNE -> FALSE
    [] p.op = "SqrtSq" -> x.k = "fin" /\ Le(Mul(x.c, x.c), Cmax) /\ 2 * x.q >= Emin /\ 2 * x.q <= Emax
    [] p.op = "CbrtCube" -> x.k = "fin" /\ Le(Mul(Mul(x.c, x.c), x.c), Cmax) /\ 3 * x.q >= Emin /\ 3 * x.q <= Emax /\ 2 * x.q >= Emin /\ 2 * x.q <= Emax
    [] p.op = "Exp10" -> LET s == SmallIntOf(x) IN s[1] /\ (IF s[2] THEN 0 - s[3] >= Emin ELSE s[3] <= Emax)
    [] p.op = "Exp2" -> LET s == SmallIntOf(x) IN s[1] /\ (IF s[2] THEN s[3] <= 48 ELSE s[3] <= 112)
    [] p.op = "Log10" -> x.k = "fin" /\ ~x.neg /\ IsPow10C(x.c)
    [] p.op = "Log2" -> x.k = "fin" /\ ~x.neg /\ x.q = 0 /\ x.c # << >> /\ Log2Of(x.c) >= 0
    [] p.op = "F64" -> x.k = "inf" \/ (x.k = "fin" /\ (x.c = << >> \/ (x.q >= 0 /\ NumDigits(x.c) + x.q <= 17 /\ Lt(MulPow10(x.c, x.q), Pow2(53)))))
    [] p.op = "Pow" -> PowLadder(reg[p.a], reg[p.b], p.m).t # "num"
    [] OTHER -> TRUE
Composite(p) ==
  LET x == reg[p.a] IN
  CASE p.op = "SqrtSq" -> Fin(FALSE, x.c, x.q)
    [] p.op = "CbrtCube" -> Fin(x.neg, x.c, x.q)
    [] p.op = "Exp10" -> LET s == SmallIntOf(x) IN Fin(FALSE, One, IF s[2] THEN 0 - s[3] ELSE s[3])
    [] p.op = "Exp2" -> LET s == SmallIntOf(x) IN IF s[2] THEN Fin(FALSE, Pow5(s[3]), 0 - s[3]) ELSE Fin(FALSE, Pow2(s[3]), 0)
    [] p.op = "Log10" -> LET n == NumDigits(x.c) - 1 + x.q IN Fin(n < 0, FromInt(IF n < 0 THEN 0 - n ELSE n), 0)
    [] p.op = "Log2" -> Fin(FALSE, FromInt(Log2Of(x.c)), 0)
    [] p.op = "F64" -> x

\* the value the specification requires in the destination register (NaN results carry no further detail here)
Plain(v) == [k |-> v.k, neg |-> (IF v.k = "nan" THEN FALSE ELSE v.neg), c |-> v.c, q |-> v.q]
Result(p) ==
  LET mm == IF "wm" \in DOMAIN p /\ p.wm THEN p.m ELSE mode IN
  CASE p.op = "Load" -> PoolSeq[p.i]
    [] p.op = "Add" -> Plain(AddSem(reg[p.a], reg[p.b], mm))
    [] p.op = "Sub" -> Plain(SubSem(reg[p.a], reg[p.b], mm))
    [] p.op = "Mul" -> Plain(MulSem(reg[p.a], reg[p.b], mm))
    [] p.op = "Quo" -> Plain(QuoSem(reg[p.a], reg[p.b], mm))
    [] p.op = "Neg" -> IF reg[p.a].k = "nan" THEN reg[p.a] ELSE NegSem(reg[p.a])
    [] p.op = "Abs" -> IF reg[p.a].k = "nan" THEN reg[p.a] ELSE AbsSem(reg[p.a])
    [] p.op = "Canonical" -> Plain(CanonV(reg[p.a]))
    [] p.op = "Round" -> LET s == RoundSem(reg[p.a], p.dp, p.m) IN IF s.t = "same" THEN reg[p.a] ELSE Plain(s.v)
    [] p.op \in {"Min", "Max"} -> Plain(MinMaxSem(reg[p.a], reg[p.b], p.op = "Max"))
    [] p.op = "QuoRem" -> Plain(QuoRemSem(reg[p.a], reg[p.b], mm)[1])
    [] p.op = "Text" -> IF reg[p.a].k = "nan" THEN reg[p.a] ELSE Plain(ParseSem(StringSem(reg[p.a]), mode).val)
    [] p.op = "Ldexp" -> IF reg[p.a].k = "nan" THEN reg[p.a] ELSE Plain(Resolve(LdexpExact(reg[p.a], p.k), mode))
    [] p.op \in {"Ceil", "Floor"} -> LET s == (IF p.op = "Ceil" THEN CeilSem(reg[p.a], p.dp) ELSE FloorSem(reg[p.a], p.dp)) IN
                                      IF s.t = "same" THEN reg[p.a] ELSE Plain(s.v)
    [] p.op \in {"Binary", "Sql"} -> reg[p.a]                                         \* lossless both ways, every class of value
    [] p.op = "Json" -> IF reg[p.a].k = "fin" THEN reg[p.a] ELSE reg[p.d]            \* only finite values have a JSON form
    [] p.op = "Int" -> IF reg[p.a].k = "nan" THEN reg[p.d]                           \* the conversion panics on NaN: nothing is stored
                       ELSE LET t == ToIntSem(reg[p.a], p.ty) IN Fin(t[1], t[2], 0)
    [] p.op = "Frexp" -> reg[p.a]                                                    \* frac * 10^e = d exactly
    [] p.op = "Pow" -> LET ld == PowLadder(reg[p.a], reg[p.b], mm) IN
                       IF ld.t = "num" THEN reg[p.d] ELSE Plain(Resolve(ld, mm))    \* only the exactly specified cases are stored
    [] p.op \in {"SqrtSq", "CbrtCube", "Exp10", "Exp2", "Log10", "Log2", "F64"} -> IF Applicable(p) THEN Composite(p) ELSE reg[p.d]
    [] p.op = "FmtE" -> reg[p.a]                                                     \* every digit is printed: the text denotes the value exactly
\* second result (the remainder of QuoRem)
Result2(p) == LET mm == IF "wm" \in DOMAIN p /\ p.wm THEN p.m ELSE mode IN Plain(QuoRemSem(reg[p.a], reg[p.b], mm)[2])

Apply ==
  /\ pick.op \notin {"none", "kind"}
  /\ IF pick.op = "SetMode"
     THEN mode' = pick.m /\ reg' = reg /\ hist' = Append(hist, pick)
     ELSE IF pick.op = "Cmp"
     THEN reg' = reg /\ mode' = mode /\ hist' = Append(hist, pick @@ [cmp |-> CmpSem(reg[pick.a], reg[pick.b])])
     ELSE LET v == Result(pick) IN
          /\ reg' = IF pick.op = "QuoRem" THEN [reg EXCEPT ![pick.d] = v, ![pick.d2] = Result2(pick)] ELSE [reg EXCEPT ![pick.d] = v]
          /\ mode' = mode
          /\ hist' = Append(hist, pick @@ [exp |-> v, exp2 |-> (IF pick.op = "QuoRem" THEN Result2(pick) ELSE v),
                                            bits |-> (IF pick.op = "Load" THEN Encode(v) ELSE << >>),
                                            skip |-> ~Applicable(pick)])
  /\ pick' = [op |-> "none"]

Next == Choose \/ Apply
Spec == Init /\ [][Next]_vars

\* every behaviour of full depth is emitted once it is complete
Emit == Len(hist) < Depth \/ pick.op # "none" \/ PrintT(<<"BEHAVIOUR", ToJson(hist)>>)

\* properties of the machine itself (checked on every simulated state)
TypeOK == mode \in Modes /\ \A r \in Regs : reg[r].k \in {"fin", "inf", "nan"}
RegistersAreMembers == \A r \in Regs : reg[r].k = "fin" => IsMember(reg[r])
C20_ModeOnlyBySet == [][mode' # mode => pick.op = "SetMode"]_vars
=============================================================================
