------------------------------ MODULE MC_Codec ------------------------------
(***************************************************************************)
(* Kind-(A) models for C13 / C14 on a small format.                        *)
(*  "compose": every coefficient 0..NMax x exponent window: ComposeSem is  *)
(*     exact-or-error, decided against brute-force membership.             *)
(*  "json": every value: the JSON acceptance predicate accepts the natural *)
(*     layouts and refuses padded / inexact ones; numbers decode to the    *)
(*     value Parse gives.                                                  *)
(***************************************************************************)
EXTENDS Codec, SmallVals

CONSTANTS Family, NMax, EWin
VARIABLES stage, n, e, x
vars == <<stage, n, e, x>>

Init == /\ stage = 0 /\ e = 0
        /\ IF Family = "compose" THEN n \in 0..63 /\ x = NaNOp ELSE n = 0 /\ x \in Values
Next == /\ stage = 0 /\ stage' = 1 /\ x' = x
        /\ IF Family = "compose" THEN n' \in { k \in 0..NMax : k % 64 = n } /\ e' \in (0 - EWin)..EWin
           ELSE n' = n /\ e' = e
Spec == Init /\ [][Next]_vars

Bytes2(k) == IF k < 256 THEN <<k>> ELSE IF k < 65536 THEN <<k \div 256, k % 256>> ELSE <<k \div 65536, (k \div 256) % 256, k % 256>>
ComposeExactOrError ==
  (stage = 1 /\ Family = "compose") =>
    \A neg \in BOOLEAN :
      LET cs == ComposeSem(0, neg, <<0>> \o Bytes2(n), e)
          same(w) == w.neg = neg /\ CmpMag(w.c, w.q, FromInt(n), e) = 0
          repr == \E w \in Members : same(w)
      IN IF n = 0 THEN cs.err = "none" /\ ResEq(cs.v, ZeroV(neg))
         ELSE (cs.err = "none") = repr /\ (cs.err = "none" => IsMember(cs.v) /\ same(cs.v))
ComposeForms ==
  (stage = 1 /\ Family = "compose" /\ n < 256) =>
    /\ ComposeSem(1, TRUE, <<n>>, e).v = InfV(TRUE) /\ ComposeSem(2, FALSE, <<n>>, e).v.k = "nan"
    /\ (n > 2 => ComposeSem(n, FALSE, <<1>>, e).err = "form")

ToBytes(c) == IF c = << >> THEN << >> ELSE ToBytesBE(c, 4)
DecomposeRoundTrip ==
  (stage = 1 /\ Family = "json" /\ IsFin(x)) =>
    /\ DecomposeOK(x, 0, x.neg, ToBytes(x.c), x.q)
    /\ LET cs == ComposeSem(0, x.neg, ToBytes(x.c), x.q) IN cs.err = "none" /\ ResEq(cs.v, x)

JsonPredicate ==
  (stage = 1 /\ Family = "json" /\ IsFin(x)) =>
    LET sg == Sig(x)
        pos == SignText(x) \o (IF IsZero(x) THEN <<48>> ELSE PosText(sg.D, sg.q))
        adj == sg.q + Len(sg.D) - 1
        ch == Chars(sg.D)
        sci == IF IsZero(x) THEN pos ELSE
               SignText(x) \o <<ch[1]>> \o (IF Len(ch) > 1 THEN <<46>> \o SubSeq(ch, 2, Len(ch)) ELSE << >>) \o <<101>>
               \o (IF adj < 0 THEN <<45>> ELSE << >>) \o Chars(ToDigits(FromInt(AbsI(adj))))
        padded == pos \o (IF \E i \in 1..Len(pos) : pos[i] = 46 THEN <<48>> ELSE <<46, 48>>)
        wrong == SignText(x) \o <<49>> \o (IF IsZero(x) THEN << >> ELSE PosText(sg.D, sg.q))
    IN /\ JsonTextOK(x, pos)
       /\ (adj # 0 => JsonTextOK(x, sci))
       /\ ~JsonTextOK(x, padded)                       \* a superfluous zero
       /\ ~JsonTextOK(x, wrong)                        \* another value
       /\ ~JsonTextOK(x, <<43>> \o pos)                \* '+' is not JSON
       /\ IsJsonNumber(pos) /\ ParseSem(pos, RNE).err = "none" /\ ResEq(ParseSem(pos, RNE).val, x)
=============================================================================
