--------------------------------- MODULE Bid ---------------------------------
(***************************************************************************)
(* IEEE 754-2008 decimal128, binary-integer-decimal (BID) interchange      *)
(* encoding, written from the standard's field layout -- not from the Go   *)
(* code.  b is a tuple of 16 byte values, big-endian.                      *)
(*   bit 127        sign                                                   *)
(*   bits 126..110  combination field G (17 bits)                          *)
(*     G0G1 # 11          : exponent = G0..G13, coefficient = G14..G16 || T*)
(*     G0G1 = 11, G2G3#11 : exponent = G2..G15, coefficient = 100 G16 || T *)
(*     G0..G4 = 11110     : infinity      G0..G4 = 11111 : NaN             *)
(*   bits 109..0    trailing significand T                                 *)
(* The library's extension: coefficients above 10^34-1 (up to 5*2^111-1)   *)
(* denote numbers (the standard reads them as zero).                       *)
(* Only meaningful for the real format (CmaxI = 0, EminNeg = 6176).        *)
(***************************************************************************)
EXTENDS Dec

Bias == 6176
Two113 == Pow2(113)

Decode(b) ==
  LET neg == b[1] >= 128
      top == b[1] % 128
  IN IF top >= 124 THEN [k |-> "nan", neg |-> neg, c |-> << >>, q |-> 0]
     ELSE IF top >= 120 THEN [k |-> "inf", neg |-> neg, c |-> << >>, q |-> 0]
     ELSE IF top >= 96 THEN          \* G0G1 = 11: exponent follows, coefficient = 100x || T
        [k |-> "fin", neg |-> neg,
         q |-> ((b[1] % 32) * 512 + b[2] * 2 + (b[3] \div 128)) - Bias,
         c |-> Add(Two113, FromBytesBE(<<b[3] % 128>> \o SubSeq(b, 4, 16)))]
     ELSE                            \* exponent first, coefficient = 0xxx || T
        [k |-> "fin", neg |-> neg,
         q |-> (top * 128 + (b[2] \div 2)) - Bias,
         c |-> FromBytesBE(<<b[2] % 2>> \o SubSeq(b, 3, 16))]

\* low 64 bits as a BigNat (the library keeps the cause of an invalid operation there)
PayloadLo(b) == FromBytesBE(SubSeq(b, 9, 16))

\* Encode a member (c <= Cmax, Emin <= q <= Emax) / Inf / canonical NaN into 16 bytes
Encode(v) ==
  LET s == IF v.neg THEN 128 ELSE 0 IN
  IF v.k = "nan" THEN <<124 + s>> \o [i \in 1..15 |-> 0]
  ELSE IF v.k = "inf" THEN <<120 + s>> \o [i \in 1..15 |-> 0]
  ELSE LET be == v.q + Bias IN
       IF Lt(v.c, Two113) THEN
          LET cb == ToBytesBE(v.c, 15)             \* 113 bits: cb[1] is 0 or 1
          IN <<s + be \div 128, (be % 128) * 2 + cb[1]>> \o SubSeq(cb, 2, 15)
       ELSE
          LET cb == ToBytesBE(Sub(v.c, Two113), 14)    \* 111 bits: cb[1] < 128
          IN <<s + 96 + be \div 512, (be \div 2) % 256, (be % 2) * 128 + cb[1]>> \o SubSeq(cb, 2, 14)

IsBytes16(b) == Len(b) = 16 /\ \A i \in 1..16 : b[i] \in 0..255
=============================================================================
