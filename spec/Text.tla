-------------------------------- MODULE Text --------------------------------
(***************************************************************************)
(* Text forms (C05 parsing, C06 default output, C07 formatting, C13 JSON). *)
(* Text is a tuple of byte values.  The literal grammar is an explicit     *)
(* automaton; the value of a literal is RoundRat of its exact value.       *)
(***************************************************************************)
EXTENDS Ops

IsDig(b) == b >= 48 /\ b <= 57
Lower(b) == IF b >= 65 /\ b <= 90 THEN b + 32 ELSE b
LowerSeq(s) == [i \in 1..Len(s) |-> Lower(s[i])]
cINF == <<105, 110, 102>>
cINFINITY == <<105, 110, 102, 105, 110, 105, 116, 121>>
cNAN == <<110, 97, 110>>
Zeros(n) == [i \in 1..n |-> 48]

\* '.'=46 '_'=95 'e'=101 'E'=69 '+'=43 '-'=45
Step(st, b) ==
  CASE st = "start"   -> IF IsDig(b) THEN "int"  ELSE IF b = 46 THEN "dot0" ELSE "err"
    [] st = "int"     -> IF IsDig(b) THEN "int"  ELSE IF b = 95 THEN "intsep" ELSE IF b = 46 THEN "dot"
                         ELSE IF b \in {69, 101} THEN "e" ELSE "err"
    [] st = "intsep"  -> IF IsDig(b) THEN "int"  ELSE "err"            \* '_' only between digits
    [] st = "dot0"    -> IF IsDig(b) THEN "frac" ELSE "err"            \* "." alone is not a number
    [] st = "dot"     -> IF IsDig(b) THEN "frac" ELSE IF b \in {69, 101} THEN "e" ELSE "err"
    [] st = "frac"    -> IF IsDig(b) THEN "frac" ELSE IF b = 95 THEN "fracsep" ELSE IF b \in {69, 101} THEN "e" ELSE "err"
    [] st = "fracsep" -> IF IsDig(b) THEN "frac" ELSE "err"
    [] st = "e"       -> IF IsDig(b) THEN "exp"  ELSE IF b \in {43, 45} THEN "esign" ELSE "err"
    [] st = "esign"   -> IF IsDig(b) THEN "exp"  ELSE "err"
    [] st = "exp"     -> IF IsDig(b) THEN "exp"  ELSE IF b = 95 THEN "expsep" ELSE "err"
    [] st = "expsep"  -> IF IsDig(b) THEN "exp"  ELSE "err"
    [] OTHER -> "err"
Accepting == {"int", "dot", "frac", "exp"}

\* run the automaton; remember where the '.' and the 'e' were
Run(s) == FoldLeft(LAMBDA acc, i : LET b == s[i] IN
              [st  |-> Step(acc.st, b),
               dot |-> IF b = 46 /\ acc.dot = 0 THEN i ELSE acc.dot,
               e   |-> IF b \in {69, 101} /\ acc.e = 0 THEN i ELSE acc.e],
            [st |-> "start", dot |-> 0, e |-> 0], [i \in 1..Len(s) |-> i])

\* digit values of s[from..to], separators skipped
DigitsIn(s, from, to) ==
  IF from > to THEN << >>
  ELSE LET ds == SelectSeq(SubSeq(s, from, to), IsDig)
       IN [i \in 1..Len(ds) |-> ds[i] - 48]
StripLeadingZeros(ds) == LET j == SelectInSeq(ds, LAMBDA x : x # 0) IN IF j = 0 THEN << >> ELSE SubSeq(ds, j, Len(ds))

PRes(err, v) == [err |-> err, val |-> v, ex |-> Val(v)]
PResR(err, v, ex) == [err |-> err, val |-> v, ex |-> ex]

\* the number part (sign already removed); literals are assumed shorter than 10^9 bytes
ParseNumber(s, neg, m) ==
  LET run == Run(s) IN
  IF run.st \notin Accepting THEN PRes("syntax", ZeroV(FALSE)) ELSE
  LET n == Len(s)
      mantEnd == IF run.e = 0 THEN n ELSE run.e - 1
      intEnd == IF run.dot = 0 THEN mantEnd ELSE run.dot - 1
      intD  == DigitsIn(s, 1, intEnd)
      fracD == IF run.dot = 0 THEN << >> ELSE DigitsIn(s, run.dot + 1, mantEnd)
      expD  == IF run.e = 0 THEN << >> ELSE StripLeadingZeros(DigitsIn(s, run.e + 1, n))
      eneg  == run.e # 0 /\ run.e < n /\ s[run.e + 1] = 45
      N == FromDigits(intD \o fracD)
      hugeExp == Len(expD) > 9                 \* beyond any compensation by a coefficient of < 10^9 digits
      E == (IF eneg THEN 0 - ToInt(FromDigits(expD)) ELSE ToInt(FromDigits(expD))) - Len(fracD)
  IN IF N = << >> THEN PRes("none", ZeroV(neg))                      \* sign kept on zero
     ELSE IF hugeExp THEN (IF eneg THEN PRes("none", ZeroV(neg)) ELSE PRes("range", InfV(neg)))
     ELSE LET r == RoundRat(neg, N, One, E, m) IN
          IF r.k = "inf" THEN PResR("range", r, Rnd(neg, N, One, E)) ELSE PResR("none", r, Rnd(neg, N, One, E))

\* exact descriptor of a literal (for the dual IsRounding check): <<neg, N, E>> or << >> when not a plain number
ParseSem(s, m) ==
  IF Len(s) = 0 THEN PRes("syntax", ZeroV(FALSE)) ELSE
  LET signed == s[1] \in {43, 45}
      neg == s[1] = 45
      rest == IF signed THEN SubSeq(s, 2, Len(s)) ELSE s
      low == LowerSeq(IF Len(rest) <= 8 THEN rest ELSE << >>)
  IN IF rest = << >> THEN PRes("syntax", ZeroV(FALSE))
     ELSE IF low = cINF \/ low = cINFINITY THEN PRes("none", InfV(neg))
     ELSE IF low = cNAN THEN PRes(IF signed THEN "nan-signed" ELSE "none", NaNV)
     ELSE ParseNumber(rest, neg, m)

-----------------------------------------------------------------------------
(* C05, the rune-level scanner behind fmt.Scan (Decimal.Scan): a small machine over an input stream.       *)
(* One step consumes: leading white space; an optional sign; then either the three letters of inf / nan     *)
(* (no more: "Infinity" leaves "inity" in the stream) or the longest run of the characters a numeral can   *)
(* contain, which is then read as a number with ParseNumber.  Position p is the next unread byte.           *)
IsSp(b) == b \in {32, 9, 10, 13}
TokCh(b) == IsDig(b) \/ b \in {46, 69, 101, 45, 95, 43}
\* first position >= p whose byte does not satisfy Test (Len(s) + 1 when there is none)
SkipWhile(s, p, Test(_)) ==
  IF p > Len(s) THEN p
  ELSE LET j == SelectInSeq(SubSeq(s, p, Len(s)), LAMBDA b : ~Test(b)) IN IF j = 0 THEN Len(s) + 1 ELSE p + j - 1
SRes(err, v, ex, p) == [err |-> err, val |-> v, ex |-> ex, p |-> p]
ScanOne(s, p, m) ==
  LET p1 == SkipWhile(s, p, IsSp) IN
  IF p1 > Len(s) THEN SRes("eof", NaNV, Val(NaNV), p1) ELSE
  LET signed == s[p1] \in {43, 45}
      neg == s[p1] = 45
      p2 == IF signed THEN p1 + 1 ELSE p1
      \* three letters, case-insensitive: a, b, c are the lower-case codes
      Word(b2, b3, v, tag) ==
        IF p2 + 1 > Len(s) THEN SRes("eof", NaNV, Val(NaNV), p2 + 1)
        ELSE IF Lower(s[p2 + 1]) # b2 THEN SRes("syntax", NaNV, Val(NaNV), p2 + 2)
        ELSE IF p2 + 2 > Len(s) THEN SRes("eof", NaNV, Val(NaNV), p2 + 2)
        ELSE IF Lower(s[p2 + 2]) # b3 THEN SRes("syntax", NaNV, Val(NaNV), p2 + 3)
        ELSE SRes(tag, v, Val(v), p2 + 3)
  IN IF p2 > Len(s) THEN SRes("eof", NaNV, Val(NaNV), p2)
     ELSE IF Lower(s[p2]) = 105 THEN Word(110, 102, InfV(neg), "none")
     ELSE IF Lower(s[p2]) = 110 THEN Word(97, 110, NaNV, IF signed THEN "nan-signed" ELSE "none")
     ELSE LET p3 == SkipWhile(s, p2, TokCh)
              ps == ParseNumber(SubSeq(s, p2, p3 - 1), neg, m)
          IN SRes(ps.err, ps.val, ps.ex, p3)

\* fmt.Fscan(stream, &d1, .., &dk): values are stored one after the other until the first error; the call reports how
\* many were stored.  Result: the per-value outcomes up to and including the first failure, and the final position.
RECURSIVE ScanMany(_, _, _, _)
ScanMany(s, p, k, m) ==
  IF k = 0 THEN [outs |-> << >>, p |-> p]
  ELSE LET o == ScanOne(s, p, m) IN
       IF o.err \in {"none", "nan-signed"} THEN LET rest == ScanMany(s, o.p, k - 1, m) IN [outs |-> <<o>> \o rest.outs, p |-> rest.p]
       ELSE [outs |-> <<o>>, p |-> o.p]

\* The same machine on a stream that FAILS after its last byte (an I/O error instead of end of input): every attempt to
\* look beyond the end is the error "ioerr" -- the end of input where a value was expected, and also the look-ahead that
\* ends a numeral (the three-letter words inf / nan need none).  Nothing is stored by the failing step.
ScanOneIO(s, p, m) ==
  LET o == ScanOne(s, p, m)
      p1 == SkipWhile(s, p, IsSp)
      p2 == IF p1 <= Len(s) /\ s[p1] \in {43, 45} THEN p1 + 1 ELSE p1
      isWord == p2 <= Len(s) /\ Lower(s[p2]) \in {105, 110}
  IN IF o.err = "eof" \/ (~isWord /\ o.p > Len(s)) THEN SRes("ioerr", NaNV, Val(NaNV), o.p) ELSE o
RECURSIVE ScanManyIO(_, _, _, _)
ScanManyIO(s, p, k, m) ==
  IF k = 0 THEN [outs |-> << >>, p |-> p]
  ELSE LET o == ScanOneIO(s, p, m) IN
       IF o.err \in {"none", "nan-signed"} THEN LET rest == ScanManyIO(s, o.p, k - 1, m) IN [outs |-> <<o>> \o rest.outs, p |-> rest.p]
       ELSE [outs |-> <<o>>, p |-> o.p]

-----------------------------------------------------------------------------
(* C06: default text *)

\* decimal digits of a small natural, at least two of them (exponent field)
ExpDigits(n) == LET ds == ToDigits(FromInt(n))  ch == [i \in 1..Len(ds) |-> ds[i] + 48]
                IN IF n = 0 THEN <<48, 48>> ELSE IF n < 10 THEN <<48>> \o ch ELSE ch

\* significant digits (no trailing zeros) and the exponent of the last kept digit
Sig(d) ==
  LET all == ToDigits(d.c)
      last == SelectLastInSeq(all, LAMBDA x : x # 0)
  IN [D |-> SubSeq(all, 1, last), q |-> d.q + (Len(all) - last)]

SignText(d) == IF d.neg THEN <<45>> ELSE << >>
Chars(D) == [i \in 1..Len(D) |-> D[i] + 48]

\* d.ddde+XX
SciText(D, q) ==
  LET nd == Len(D)  adj == q + nd - 1  ch == Chars(D)
  IN <<ch[1]>> \o (IF nd > 1 THEN <<46>> \o SubSeq(ch, 2, nd) ELSE << >>) \o <<101>>
     \o (IF adj < 0 THEN <<45>> \o ExpDigits(0 - adj) ELSE <<43>> \o ExpDigits(adj))
\* positional
PosText(D, q) ==
  LET nd == Len(D)  ch == Chars(D)
  IN IF q >= 0 THEN ch \o Zeros(q)
     ELSE IF nd + q > 0 THEN SubSeq(ch, 1, nd + q) \o <<46>> \o SubSeq(ch, nd + q + 1, nd)
     ELSE <<48, 46>> \o Zeros(0 - (nd + q)) \o ch

SpecialText(d) == IF d.k = "nan" THEN <<78, 97, 78>> ELSE IF d.neg THEN <<45, 73, 110, 102>> ELSE <<43, 73, 110, 102>>

\* String / MarshalText / %v / 'g' with precision -1
StringSem(d) ==
  IF d.k # "fin" THEN SpecialText(d)
  ELSE IF d.c = << >> THEN SignText(d) \o <<48>>
  ELSE LET sg == Sig(d)  adj == sg.q + Len(sg.D) - 1
       IN SignText(d) \o (IF adj < -4 \/ adj >= 6 THEN SciText(sg.D, sg.q) ELSE PosText(sg.D, sg.q))
\* Format(d, 'e', -1) and Format(d, 'f', -1): shortest exact digits in the requested layout
ShortestE(d) == IF d.k # "fin" THEN SpecialText(d)
                ELSE IF d.c = << >> THEN SignText(d) \o <<48, 101, 43, 48, 48>>
                ELSE LET sg == Sig(d) IN SignText(d) \o SciText(sg.D, sg.q)
ShortestF(d) == IF d.k # "fin" THEN SpecialText(d)
                ELSE IF d.c = << >> THEN SignText(d) \o <<48>>
                ELSE LET sg == Sig(d) IN SignText(d) \o PosText(sg.D, sg.q)
=============================================================================
