SPECIFICATION Spec
CONSTANTS CmaxI = 129  EminNeg = 3  Emax = 1
INVARIANTS AdjacentExact FloatAllowedSound Totality IntAndRat
CHECK_DEADLOCK FALSE
