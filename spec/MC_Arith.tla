------------------------------ MODULE MC_Arith ------------------------------
(***************************************************************************)
(* Kind-(A) model for C01, C02, C03 (and the arithmetic part of C15, C19): *)
(* every pair of values of a small format x every mode x every operation.  *)
(* Depth-1 model: Init chooses x, one step chooses y, the operation and the *)
(* mode; the properties are invariants of the resulting state.             *)
(* The exact result is recomputed here with TLC's native integers,         *)
(* independently of the alignment code in Arith.tla.                       *)
(***************************************************************************)
EXTENDS Arith, SmallVals

VARIABLES stage, x, y, op, m
vars == <<stage, x, y, op, m>>
CONSTANT Ops

Init == stage = 0 /\ x \in Values /\ y = NaNOp /\ op = "Add" /\ m = 0
Next == stage = 0 /\ stage' = 1 /\ x' = x /\ y' \in Values /\ op' \in Ops /\ m' \in Modes
Spec == Init /\ [][Next]_vars

Sem1 == CASE op = "Add" -> AddSem(x, y, m)
          [] op = "Sub" -> SubSem(x, y, m)
          [] op = "Mul" -> MulSem(x, y, m)
          [] op = "Quo" -> QuoSem(x, y, m)
          [] op = "QuoRem" -> QuoRemSem(x, y, m)[1]
BothFin == x.k = "fin" /\ y.k = "fin"
U == FromInt(1)

\* ---- C01 / C02: the result is the member the mode selects for the exact result ----
Signed(v) == IF v.neg THEN 0 - MagU(v) ELSE MagU(v)
AbsI(i) == IF i < 0 THEN 0 - i ELSE i
CorrectlyRounded ==
  (stage = 1 /\ BothFin) =>
    CASE op \in {"Add", "Sub"} ->
           LET s == IF op = "Add" THEN Signed(x) + Signed(y) ELSE Signed(x) - Signed(y)
               yneg == IF op = "Add" THEN y.neg ELSE ~y.neg
           IN IF IsZero(x) /\ IsZero(y) THEN Sem1 = ZeroV(x.neg /\ yneg) \/ ResEq(Sem1, ZeroV(x.neg /\ yneg))
              ELSE IF IsZero(x) THEN ResEq(Sem1, Fin(yneg, y.c, y.q))
              ELSE IF IsZero(y) THEN ResEq(Sem1, x)
              ELSE IF s = 0 THEN ResEq(Sem1, ZeroV(m = RNI))
              ELSE IsRounding(s < 0, FromInt(AbsI(s)), One, Emin, Sem1, m)
      [] op = "Mul" ->
           IF IsZero(x) \/ IsZero(y) THEN ResEq(Sem1, ZeroV(x.neg # y.neg))
           ELSE IsRounding(x.neg # y.neg, FromInt(CI(x) * CI(y)), One, x.q + y.q, Sem1, m)
      [] op = "Quo" ->
           IF IsZero(y) THEN (IF IsZero(x) THEN Sem1.k = "nan" ELSE ResEq(Sem1, InfV(x.neg # y.neg)))
           ELSE IF IsZero(x) THEN ResEq(Sem1, ZeroV(x.neg # y.neg))
           ELSE IsRounding(x.neg # y.neg, FromInt(MagU(x)), FromInt(MagU(y)), 0, Sem1, m)
      [] op = "QuoRem" -> TRUE

\* ---- C03: truncated integer quotient, exact remainder ----
QuoRemOK ==
  (stage = 1 /\ op = "QuoRem") =>
    LET qr == QuoRemSem(x, y, m)  q == qr[1]  r == qr[2] IN
    IF IsNaN(x) \/ IsNaN(y) THEN q.k = "nan" /\ r.k = "nan"
    ELSE IF IsInf(x) THEN r.k = "nan" /\ (IF IsInf(y) THEN q.k = "nan" ELSE ResEq(q, InfV(x.neg # y.neg)))
    ELSE IF IsInf(y) THEN ResEq(q, ZeroV(x.neg # y.neg)) /\ ResEq(r, x)
    ELSE IF IsZero(y) THEN r.k = "nan" /\ (IF IsZero(x) THEN q.k = "nan" ELSE ResEq(q, InfV(x.neg # y.neg)))
    ELSE LET a == MagU(x)  b == MagU(y)  n == a \div b  rem == a % b IN
         /\ (IF n = 0 THEN ResEq(q, ZeroV(x.neg # y.neg))
             ELSE IsRounding(x.neg # y.neg, FromInt(n), One, 0, q, m))
         /\ (IF rem = 0 THEN ResEq(r, ZeroV(x.neg))
             ELSE IsRounding(x.neg, FromInt(rem), One, Emin, r, m))
         /\ (a < b => ResEq(q, ZeroV(x.neg # y.neg)) /\ ResEq(r, x))
         /\ (r.k = "fin" => r.neg = x.neg /\ CmpMag(r.c, r.q, y.c, y.q) < 0)

\* ---- C15 (arithmetic part): NaN exactly in the listed invalid cases, never from finite operands otherwise ----
NaNExactlyWhenInvalid ==
  (stage = 1 /\ op # "QuoRem") =>
    LET invalid == CASE op = "Add" -> IsInf(x) /\ IsInf(y) /\ x.neg # y.neg
                     [] op = "Sub" -> IsInf(x) /\ IsInf(y) /\ x.neg = y.neg
                     [] op = "Mul" -> (IsInf(x) /\ IsZero(y)) \/ (IsZero(x) /\ IsInf(y))
                     [] op = "Quo" -> (IsInf(x) /\ IsInf(y)) \/ (IsZero(x) /\ IsZero(y))
    IN (Sem1.k = "nan") = (IsNaN(x) \/ IsNaN(y) \/ invalid)

\* ---- algebraic consequences stated in C01 ----
Laws ==
  stage = 1 =>
    /\ (op = "Sub" /\ ~IsNaN(y) => ResEq(SubSem(x, y, m), AddSem(x, Negate(y), m)))
    /\ (op = "Add" => ResEq(AddSem(x, y, m), AddSem(y, x, m)))
    /\ (op = "Mul" => ResEq(MulSem(x, y, m), MulSem(y, x, m)))
    /\ (Sem1.k = "fin" => IsMember(Sem1))

\* ---- C19: the result depends on the operand values, not on the cohort member ----
CohortIndependent ==
  (stage = 1 /\ IsLowest(x) /\ IsLowest(y)) =>
    \A x2 \in Cohort(x), y2 \in Cohort(y) :
       CASE op = "Add" -> ResEq(Sem1, AddSem(x2, y2, m))
         [] op = "Sub" -> ResEq(Sem1, SubSem(x2, y2, m))
         [] op = "Mul" -> ResEq(Sem1, MulSem(x2, y2, m))
         [] op = "Quo" -> ResEq(Sem1, QuoSem(x2, y2, m))
         [] op = "QuoRem" -> LET a == QuoRemSem(x, y, m)  b == QuoRemSem(x2, y2, m)
                             IN ResEq(a[1], b[1]) /\ ResEq(a[2], b[2])
=============================================================================
