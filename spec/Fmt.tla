--------------------------------- MODULE Fmt ---------------------------------
(***************************************************************************)
(* C07: formatting with a precision, flags and width -- the rules package  *)
(* fmt / strconv apply to a float64 holding the same exact value, stated   *)
(* on the exact decimal value.                                             *)
(*   NumText:  the digits (half-even rounding at the position the verb and *)
(*             precision select), sign always in front ('+' or '-'),       *)
(*             including the '#' post-processing of fmt.fmtFloat;          *)
(*   Layout:   sign flags, width, '0' and '-' padding;                     *)
(*   SpecParse: the automaton behind Decimal.Append(buf, spec).            *)
(* Flags record: [plus, minus, sharp, space, zero : BOOLEAN].              *)
(***************************************************************************)
EXTENDS Encl

cE == 101   cBigE == 69   cF == 102   cBigF == 70   cG == 103   cBigG == 71   cV == 118
FmtVerbs == {cE, cBigE, cF, cBigF, cG, cBigG}

PadDigits(M, n) ==        \* decimal digits of M as characters, left-padded with '0' to at least n
  LET ds == Chars(ToDigits(M)) IN IF Len(ds) >= n THEN ds ELSE Zeros(n - Len(ds)) \o ds

\* round N * 10^q half-even to a multiple of 10^pos; result the integer M with value M * 10^pos
RoundAt(N, q, pos) ==
  IF N = << >> THEN << >>
  ELSE IF pos <= q THEN MulPow10(N, q - pos)
  ELSE IF pos - q > NumDigits(N) + 1 THEN << >>
  ELSE LET fl == FloorAt(N, One, q, pos) IN IF RoundUp(RNE, FALSE, fl[2], fl[3], IsOdd(fl[1])) THEN Add(fl[1], One) ELSE fl[1]

ExpText(adj, upper) ==
  <<IF upper THEN cBigE ELSE cE>> \o (IF adj < 0 THEN <<45>> \o ExpDigits(0 - adj) ELSE <<43>> \o ExpDigits(adj))

\* %e with p >= 0 digits after the point: <<mantissa text, exponent text>>
SciParts(N, q, p, upper) ==
  IF N = << >> THEN <<(<<48>> \o (IF p > 0 THEN <<46>> \o Zeros(p) ELSE << >>)), ExpText(0, upper)>>
  ELSE LET adj == q + NumDigits(N) - 1
           M0 == RoundAt(N, q, adj - p)
           carry == NumDigits(M0) > p + 1
           M == IF carry THEN DivPow10(M0, 1) ELSE M0
           adj2 == IF carry THEN adj + 1 ELSE adj
           ds == PadDigits(M, p + 1)
       IN <<(<<ds[1]>> \o (IF p > 0 THEN <<46>> \o SubSeq(ds, 2, p + 1) ELSE << >>)), ExpText(adj2, upper)>>

\* %f with p >= 0 digits after the point
FixText(N, q, p) ==
  LET M == RoundAt(N, q, 0 - p)
      ds == PadDigits(M, p + 1)
      n == Len(ds)
  IN SubSeq(ds, 1, n - p) \o (IF p > 0 THEN <<46>> \o SubSeq(ds, n - p + 1, n) ELSE << >>)

\* significant digits after rounding to p (>= 1) significant digits, trailing zeros trimmed: <<digit values, dp>>, value = 0.D * 10^dp
GDigits(N, q, p) ==
  IF N = << >> THEN << << >>, 0>>
  ELSE LET adj == q + NumDigits(N) - 1
           M0 == IF p < 0 THEN N ELSE RoundAt(N, q, adj - (p - 1))
           carry == p >= 0 /\ NumDigits(M0) > p
           adj2 == IF carry THEN adj + 1 ELSE adj
           ds == ToDigits(M0)
           last == SelectLastInSeq(ds, LAMBDA x : x # 0)
       IN <<SubSeq(ds, 1, last), adj2 + 1>>

\* strconv's %e / %f on already rounded digits D (values), decimal point position dp
EFromDigits(D, dp, prec, upper) ==      \* prec digits after the point (padding with zeros)
  LET ch == Chars(D)  nd == Len(D)
      first == IF nd = 0 THEN <<48>> ELSE <<ch[1]>>
      rest == IF prec > 0 THEN <<46>> \o [i \in 1..prec |-> IF i + 1 <= nd THEN ch[i + 1] ELSE 48] ELSE << >>
  IN <<first \o rest, ExpText(IF nd = 0 THEN 0 ELSE dp - 1, upper)>>
FFromDigits(D, dp, prec) ==
  LET ch == Chars(D)  nd == Len(D)
      ip == IF dp > 0 THEN [i \in 1..dp |-> IF i <= nd THEN ch[i] ELSE 48] ELSE <<48>>
      fp == IF prec > 0 THEN <<46>> \o [i \in 1..prec |-> LET j == dp + i IN IF j >= 1 /\ j <= nd THEN ch[j] ELSE 48] ELSE << >>
  IN ip \o fp

\* the number without sign: <<mantissa, tail>> (tail = exponent part or empty); prec = -1 means "absent" for %g (shortest) --
\* for e/f the caller has already substituted fmt's default of 6
NumParts(N, q, verb, prec) ==
  CASE verb \in {cE, cBigE} -> (IF prec < 0
                                THEN LET g == GDigits(N, q, 0 - 1) IN EFromDigits(g[1], g[2], Max2(Len(g[1]) - 1, 0), verb = cBigE)
                                ELSE SciParts(N, q, prec, verb = cBigE))
    [] verb \in {cF, cBigF} -> (IF prec < 0
                                THEN LET g == GDigits(N, q, 0 - 1) IN <<FFromDigits(g[1], g[2], Max2(Len(g[1]) - g[2], 0)), << >> >>
                                ELSE <<FixText(N, q, prec), << >> >>)
    [] verb \in {cG, cBigG} ->
         LET shortest == prec < 0
             p == IF prec = 0 THEN 1 ELSE prec
             g == GDigits(N, q, IF shortest THEN 0 - 1 ELSE p)
             D == g[1]  dp == g[2]  nd == Len(D)
             eprec0 == IF shortest THEN 6 ELSE (IF p > nd /\ nd >= dp THEN nd ELSE p)
             ex == dp - 1
         IN IF ex < 0 - 4 \/ ex >= eprec0
            THEN EFromDigits(D, dp, (IF shortest \/ p > nd THEN nd ELSE p) - 1, verb = cBigG)
            ELSE <<FFromDigits(D, dp, Max2(nd - dp, 0)), << >> >>

\* fmt's '#' flag: force a decimal point; for %g keep / pad trailing zeros up to the precision
SharpFix(mant, tail, verb, prec) ==
  LET digits0 == IF verb \in {cG, cBigG} THEN (IF prec < 0 THEN 6 ELSE prec) ELSE 0
      hasPoint == SelectInSeq(mant, LAMBDA b : b = 46) # 0
      firstNZ == SelectInSeq(mant, LAMBDA b : b # 48 /\ b # 46)
      \* digits counted from the first non-zero digit on
      counted == IF firstNZ = 0 THEN 0 ELSE Len(SelectSeq(SubSeq(mant, firstNZ, Len(mant)), LAMBDA b : b # 46))
      d1 == digits0 - counted
      d2 == IF ~hasPoint /\ mant = <<48>> THEN d1 - 1 ELSE d1
      m2 == IF hasPoint THEN mant ELSE mant \o <<46>>
  IN m2 \o (IF d2 > 0 THEN Zeros(d2) ELSE << >>) \o tail

\* the text fmt.fmtFloat builds before sign handling and padding, sign character in front
NumText(d, verb, prec, sharp) ==
  LET N == IF d.c = << >> THEN << >> ELSE DivPow10(d.c, TrailingZeros(d.c))
      q == IF d.c = << >> THEN 0 ELSE d.q + TrailingZeros(d.c)
      parts == NumParts(N, q, verb, prec)
      body == IF sharp THEN SharpFix(parts[1], parts[2], verb, prec) ELSE parts[1] \o parts[2]
  IN <<IF d.neg THEN 45 ELSE 43>> \o body

Spaces(n) == [i \in 1..n |-> 32]
\* sign flags, width, zero / minus padding (fmt.fmtFloat + fmt.pad of the installed toolchain: '-' overrides '0')
Layout(num, fl, width) ==
  LET n0 == IF fl.space /\ num[1] = 43 /\ ~fl.plus THEN <<32>> \o Tail(num) ELSE num
      wantSign == fl.plus \/ n0[1] # 43
      shown == IF wantSign THEN n0 ELSE Tail(n0)
      w == IF width < 0 THEN 0 ELSE width
      padn == IF w > Len(shown) THEN w - Len(shown) ELSE 0
  IN IF fl.minus THEN shown \o Spaces(padn)
     ELSE IF fl.zero /\ padn > 0 THEN (IF wantSign THEN <<shown[1]>> \o Zeros(padn) \o Tail(shown) ELSE Zeros(padn) \o shown)
     ELSE Spaces(padn) \o shown
SpecialLayout(d, fl, width) ==
  LET base == IF d.k = "nan" THEN (IF fl.plus THEN <<43, 78, 97, 78>> ELSE IF fl.space THEN <<32, 78, 97, 78>> ELSE <<78, 97, 78>>)
              ELSE IF d.neg THEN <<45, 73, 110, 102>> ELSE IF fl.space /\ ~fl.plus THEN <<32, 73, 110, 102>> ELSE <<43, 73, 110, 102>>
      w == IF width < 0 THEN 0 ELSE width
      padn == IF w > Len(base) THEN w - Len(base) ELSE 0
  IN IF fl.minus THEN base \o Spaces(padn) ELSE Spaces(padn) \o base

\* fmt.Sprintf("%" + flags width .prec verb, d) for the six verbs; prec / width = -1 when absent
FormatSem(d, verb, prec, width, fl) ==
  IF d.k # "fin" THEN SpecialLayout(d, fl, width)
  ELSE LET p == IF prec < 0 /\ verb \in {cE, cBigE, cF, cBigF} THEN 6 ELSE prec
       IN Layout(NumText(d, verb, p, fl.sharp), fl, width)

\* strconv-style Format(d, verb, prec) / Append: no flags, sign only when negative, prec -1 = shortest
PlainFormatSem(d, verb, prec) ==
  IF d.k # "fin" THEN SpecialText(d)
  ELSE LET t == NumText(d, verb, prec, FALSE) IN IF d.neg THEN t ELSE Tail(t)

-----------------------------------------------------------------------------
(* the format specification accepted after '%':  flags* width? ('.' digits?)? verb                                  *)
NoFlags == [plus |-> FALSE, minus |-> FALSE, sharp |-> FALSE, space |-> FALSE, zero |-> FALSE]
SpecParse(s) ==      \* [ok, fl, width, prec, verb]
  LET n == Len(s)
      isFlag(b) == b \in {43, 45, 35, 32, 48}
      fEnd == LET j == SelectInSeq(s, LAMBDA b : ~isFlag(b)) IN IF j = 0 THEN n + 1 ELSE j          \* first non-flag
      flags == SubSeq(s, 1, fEnd - 1)
      has(b) == SelectInSeq(flags, LAMBDA c : c = b) # 0
      rest1 == SubSeq(s, fEnd, n)
      wEnd == LET j == SelectInSeq(rest1, LAMBDA b : ~IsDig(b)) IN IF j = 0 THEN Len(rest1) + 1 ELSE j
      wDigits == SubSeq(rest1, 1, wEnd - 1)
      rest2 == SubSeq(rest1, wEnd, Len(rest1))
      hasDot == rest2 # << >> /\ rest2[1] = 46
      rest3 == IF hasDot THEN Tail(rest2) ELSE rest2
      pEnd == LET j == SelectInSeq(rest3, LAMBDA b : ~IsDig(b)) IN IF j = 0 THEN Len(rest3) + 1 ELSE j
      pDigits == SubSeq(rest3, 1, pEnd - 1)
      rest4 == SubSeq(rest3, pEnd, Len(rest3))
      small(ds) == Len(ds) <= 6
      num(ds) == FoldLeft(LAMBDA acc, b : acc * 10 + (b - 48), 0, ds)
  IN [ok |-> Len(rest4) = 1 /\ rest4[1] \in FmtVerbs /\ small(wDigits) /\ small(pDigits),
      fl |-> [plus |-> has(43), minus |-> has(45), sharp |-> has(35), space |-> has(32), zero |-> has(48)],
      width |-> IF wDigits = << >> THEN 0 - 1 ELSE num(wDigits),
      prec |-> IF ~hasDot THEN 0 - 1 ELSE num(pDigits),
      verb |-> IF Len(rest4) = 1 THEN rest4[1] ELSE 0]
=============================================================================
