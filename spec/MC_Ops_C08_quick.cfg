SPECIFICATION Spec
CONSTANTS CmaxI = 19  EminNeg = 1  Emax = 1  Family = "quant"  DpMax = 3  SigMax = 0
INVARIANTS QuantExact QuantLaws
CHECK_DEADLOCK FALSE
