SPECIFICATION Spec
CONSTANTS CmaxI = 0  EminNeg = 6176  Emax = 6111  Stride = 16  Chunks = 32
INVARIANT DecodeTotalAndInverse
CHECK_DEADLOCK FALSE
