SPECIFICATION Spec
CONSTANTS CmaxI = 19  EminNeg = 2  Emax = 2  Family = "scale"  DpMax = 6  SigMax = 40
INVARIANTS ScaleExact
CHECK_DEADLOCK FALSE
