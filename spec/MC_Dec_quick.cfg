SPECIFICATION Spec
CONSTANTS CmaxI = 19  EminNeg = 1  Emax = 1  NMax = 300  Chunks = 64
INVARIANT RoundingAgrees
CHECK_DEADLOCK FALSE
