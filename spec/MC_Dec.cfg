SPECIFICATION Spec
CONSTANTS CmaxI = 19  EminNeg = 1  Emax = 1  NMax = 2200  Chunks = 64
INVARIANT RoundingAgrees
CHECK_DEADLOCK FALSE
