------------------------------- MODULE MC_Encl -------------------------------
(***************************************************************************)
(* Kind-(A) check of the enclosure arithmetic itself (real format          *)
(* constants): on a grid of arguments the fixed-point enclosure of e^a     *)
(*  - contains the exact rational partial sums' lower bound (a brute-force *)
(*    Taylor sum with exact rationals is a lower bound of e^a for a > 0),  *)
(*  - is narrow (relative width below 10^-55),                             *)
(*  - is consistent: e^a * e^-a encloses 1, e^(a+b) meets e^a * e^b,       *)
(*  - the certified constants reproduce e^(ln 10) = 10, e^(ln 2) = 2,      *)
(* and the verdict operators accept the exact cases and refuse results     *)
(* moved by two units in the last place.                                   *)
(***************************************************************************)
EXTENDS Encl

CONSTANT NMax
VARIABLES stage, n, k
vars == <<stage, n, k>>
Init == stage = 0 /\ n \in 0..15 /\ k = 0
Next == stage = 0 /\ stage' = 1 /\ n' \in { i \in 1..NMax : i % 16 = n } /\ k' \in {0 - 30, 0 - 12, 0 - 3, 0 - 1, 0, 1, 2}
Spec == Init /\ [][Next]_vars

\* argument a = n * 37 * 10^k  (|a| up to 1.5 * 10^6 is excluded by the guard)
AC == FromInt(n * 37)
InRange == NumDigits(AC) + k <= 4
Enc(neg) == LET fx == FxOfDec(AC, k) IN ExpEnclFx(neg, fx[1], fx[2])

\* exact rational lower bound of e^a, a = c*10^k > 0:  sum_{j<=J} a^j / j!  (J = 30) over the common denominator 30! * 10^(-30k)
Fact(j) == FoldLeft(LAMBDA acc, i : MulSmall(acc, i), One, [i \in 1..j |-> i])
TaylorLowerOK ==
  (stage = 1 /\ InRange /\ k < 0 /\ NumDigits(AC) + k <= 1) =>
    LET J == 12
        den == MulPow10(Fact(J), 0 - J * k)                           \* J! * 10^(-J k)
        term(j) == Mul(MulPow10(PowN(AC, j), 0 - (J - j) * k), DivMod(Fact(J), Fact(j))[1])
        num == FoldLeft(LAMBDA acc, j : Add(acc, term(j)), << >>, [j \in 1..(J + 1) |-> j - 1])
        en == Enc(FALSE)
    IN \* num/den <= e^a <= U * 10^(kk-P)
       CmpVC(num, den, 0, en.U, en.kk - P) <= 0
Narrow ==
  (stage = 1 /\ InRange) =>
    \A neg \in BOOLEAN : LET en == Enc(neg) IN
       /\ Le(en.L, en.U) /\ en.L # << >>
       /\ Le(MulPow10(Sub(en.U, en.L), 55), en.L)
Reciprocal ==
  (stage = 1 /\ InRange) =>
    LET p == Enc(FALSE)  q == Enc(TRUE) IN
    \* [pL*qL, pU*qU] * 10^(kkp+kkq-2P) must contain 1
    /\ CmpVC(Mul(p.L, q.L), One, p.kk + q.kk - 2 * P, One, 0) <= 0
    /\ CmpVC(Mul(p.U, q.U), One, p.kk + q.kk - 2 * P, One, 0) >= 0
ConstantsReproduce ==
  stage = 1 =>
    LET t == ExpEnclFx(FALSE, Sub(LN10, DU), Add(LN10, DU))
        w == ExpEnclFx(FALSE, Sub(LN2, DU), Add(LN2, DU))
    IN /\ CmpVC(t.L, One, t.kk - P, <<1>>, 1) <= 0 /\ CmpVC(t.U, One, t.kk - P, <<1>>, 1) >= 0
       /\ CmpVC(w.L, One, w.kk - P, <<2>>, 0) <= 0 /\ CmpVC(w.U, One, w.kk - P, <<2>>, 0) >= 0
\* verdict operators on exact cases (real format): 10^n, 2^n, and moved results
VerdictsBite ==
  (stage = 1 /\ n <= 40) =>
    LET x == Fin(FALSE, FromInt(n), 0)
        r10 == RoundRat(FALSE, One, One, n, RNE)
        r2 == RoundRat(FALSE, Pow2(n), One, 0, RNE)
        bump(r) == Fin(r.neg, Add(NormMax(r.c, r.q)[1], <<2>>), NormMax(r.c, r.q)[2])
        e1 == LET b == EnclAsBounds(ExpEnclFx(FALSE, FxOfDec(FromInt(n), 0)[1], FxOfDec(FromInt(n), 0)[2])) IN b
        re == RoundRat(FALSE, e1[1][1], One, e1[1][3], RNE)                   \* a correctly rounded e^n from the lower bound
    IN /\ EnclVerdict("Exp10", x, r10) = "ok" /\ EnclVerdict("Exp2", x, r2) \in {"ok", "ok+"}
       /\ EnclVerdict("Exp10", x, bump(r10)) = "reject"
       /\ EnclVerdict("Exp", x, re) = "ok+" /\ EnclVerdict("Exp", x, bump(re)) = "reject"
       /\ (n >= 1 => LET lg == RoundRat(FALSE, MulSmall(LN10, n), One, 0 - P, RNE) IN         \* ln(10^n) = n ln 10
                      /\ EnclVerdict("Log", r10, lg) = "ok+" /\ EnclVerdict("Log", r10, bump(lg)) = "reject"
                      /\ EnclVerdict("Log1p", Fin(FALSE, Sub(r10.c, IF r10.q = 0 THEN One ELSE << >>), r10.q), lg) \in {"ok+", "reject"})
       /\ EnclVerdict("Log10", r10, x) = "ok" /\ EnclVerdict("Log2", r2, x) = "ok"
=============================================================================
