SPECIFICATION Spec
CONSTANTS CmaxI = 39  EminNeg = 1  Emax = 1  Family = "spec"
INVARIANTS UnaryTable PowTable
CHECK_DEADLOCK FALSE
