SPECIFICATION Spec
CONSTANTS CmaxI = 129  EminNeg = 2  Emax = 2  Family = "spec"
INVARIANTS UnaryTable PowTable
CHECK_DEADLOCK FALSE
