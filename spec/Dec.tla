--------------------------------- MODULE Dec ---------------------------------
(***************************************************************************)
(* The decimal format (parameterised) and rounding into it.                *)
(*                                                                         *)
(* A format is given by Cmax (largest coefficient), Emin, Emax.  The real  *)
(* decimal128-as-implemented format has Cmax = 5*2^111 - 1 (34 and partly  *)
(* 35 digits), Emin = -6176, Emax = 6111.  The small formats used for      *)
(* exhaustive checks have Cmax in {19, 129, 1299}: the same irregular top  *)
(* decade.  Required of every instance (ASSUMEd below): Cmax is odd and    *)
(* Cmax+1 is a multiple of ten, as for 5*2^111-1.                          *)
(*                                                                         *)
(* Abstract values: [k |-> "fin", neg, c, q]  = (-1)^neg * c * 10^q        *)
(*                  [k |-> "inf", neg, ...], [k |-> "nan", ...]            *)
(* Exact non-negative magnitudes are passed around as (n, d, e) meaning    *)
(* n/d * 10^e with n, d BigNats, d # 0, e an Int.                          *)
(***************************************************************************)
EXTENDS BigNat

CONSTANTS CmaxI,       \* Cmax as an Int for small formats; 0 selects the real format
          EminNeg,     \* -Emin (TLC cfg files cannot hold negative numbers)
          Emax

RealCmax == Sub(MulSmall(Pow2(111), 5), One)
Cmax == IF CmaxI = 0 THEN RealCmax ELSE FromInt(CmaxI)
Emin == 0 - EminNeg
CmaxP1 == Add(Cmax, One)
CmaxP1Div10 == DivPow10(CmaxP1, 1)
PDigits == NumDigits(Cmax)

ASSUME FormatShape == /\ IsOdd(Cmax)
                      /\ ModPow10IsZero(CmaxP1, 1)
                      /\ Emin < Emax
ASSUME RealCmaxDigits ==
   RealCmax = FromDigits(<<1,2,9,8,0,7,4,2,1,4,6,3,3,7,0,6,9,0,7,1,3,2,6,2,4,0,8,2,3,0,5,0,2,3,9>>)

\* rounding modes, numbered as the library's RoundingMode constants
RNE == 0   \* ToNearestEven
RNA == 1   \* ToNearestAway
RTZ == 2   \* ToZero
RAZ == 3   \* AwayFromZero
RNI == 4   \* ToNegativeInf
RPI == 5   \* ToPositiveInf
Modes == 0..5

Fin(neg, c, q) == [k |-> "fin", neg |-> neg, c |-> c, q |-> q]
InfV(neg)      == [k |-> "inf", neg |-> neg, c |-> << >>, q |-> 0]
NaNV           == [k |-> "nan", neg |-> FALSE, c |-> << >>, q |-> 0]
ZeroV(neg)     == Fin(neg, << >>, 0)

IsFin(v) == v.k = "fin"
IsInf(v) == v.k = "inf"
IsNaN(v) == v.k = "nan"
IsZero(v) == v.k = "fin" /\ v.c = << >>
IsMember(v) == v.k = "fin" /\ Le(v.c, Cmax) /\ v.q >= Emin /\ v.q <= Emax

\* sign of c1*10^q1 - c2*10^q2 (only the shorter exponent side is scaled)
CmpMag(c1, q1, c2, q2) ==
  IF c1 = << >> \/ c2 = << >> THEN (IF c1 = c2 THEN 0 ELSE IF c1 = << >> THEN -1 ELSE 1)
  ELSE LET a1 == NumDigits(c1) + q1   a2 == NumDigits(c2) + q2
       IN IF a1 # a2 THEN (IF a1 < a2 THEN -1 ELSE 1)
          ELSE IF q1 >= q2 THEN Cmp(MulPow10(c1, q1 - q2), c2) ELSE Cmp(c1, MulPow10(c2, q2 - q1))

\* value equality of results: same class, same sign (also on zero), same exact value
ResEq(a, b) == /\ a.k = b.k
               /\ (a.k = "nan" \/ a.neg = b.neg)
               /\ (a.k = "fin" => CmpMag(a.c, a.q, b.c, b.q) = 0)

\* order of two non-NaN values: -1, 0, 1 (zeros equal whatever their sign)
CmpVal(a, b) ==
  LET sa == IF IsZero(a) THEN 0 ELSE IF a.neg THEN -1 ELSE 1
      sb == IF IsZero(b) THEN 0 ELSE IF b.neg THEN -1 ELSE 1
  IN IF sa # sb THEN (IF sa < sb THEN -1 ELSE 1)
     ELSE IF sa = 0 THEN 0
     ELSE LET mag == IF a.k = "inf" THEN (IF b.k = "inf" THEN 0 ELSE 1)
                     ELSE IF b.k = "inf" THEN -1 ELSE CmpMag(a.c, a.q, b.c, b.q)
          IN IF sa > 0 THEN mag ELSE 0 - mag

-----------------------------------------------------------------------------
(* Exact magnitude v = n/d * 10^e against a member-like c * 10^q *)

\* sign of v - c*10^q
CmpVC(n, d, e, c, q) ==
  IF n = << >> \/ c = << >> THEN (IF n = c THEN 0 ELSE IF n = << >> THEN -1 ELSE 1) ELSE
  \* quick decision on digit counts: n/d in (10^(dn-dd-1), 10^(dn-dd+1))
  LET dn == NumDigits(n)  dd == NumDigits(d)  dc == NumDigits(c)
      hiV == dn - dd + 1 + e      \* v < 10^hiV
      loV == dn - dd - 1 + e      \* v > 10^loV
  IN IF hiV <= dc - 1 + q THEN -1        \* v < 10^hiV <= 10^(dc-1+q) <= c*10^q
     ELSE IF loV >= dc + q THEN 1        \* v > 10^loV >= 10^(dc+q) > c*10^q
     ELSE LET lo == Min2(e, q)
              rhs == IF d = One THEN c ELSE Mul(c, d)
          IN Cmp(MulPow10(n, e - lo), MulPow10(rhs, q - lo))

\* << floor(v / 10^q), sign of (remainder - half quantum), remainder = 0 >>
FloorAt(n, d, e, q) ==
  IF d = One /\ e < q THEN
     LET k == q - e
         r == ModPow10(n, k)
     IN <<DivPow10(n, k), Cmp(MulSmall(r, 2), Pow10(k)), r = << >> >>
  ELSE
     LET num == IF e >= q THEN MulPow10(n, e - q) ELSE n
         den == IF e >= q THEN d ELSE MulPow10(d, q - e)
         qr  == DivMod(num, den)
     IN <<qr[1], Cmp(MulSmall(qr[2], 2), den), qr[2] = << >> >>

\* smallest q >= Emin with v < (Cmax+1) * 10^q
QPos(n, d, e) ==
  LET lo == Max2(Emin, NumDigits(n) - NumDigits(d) + e - PDigits - 1)
      RECURSIVE f(_)
      f(q) == IF CmpVC(n, d, e, CmaxP1, q) < 0 THEN q ELSE f(q + 1)
  IN f(lo)

\* FlushRule: magnitudes below 10^(Emin-1) become a signed zero in every mode (pinned by C02/C08)
Flushes(n, d, e) == n = << >> \/ CmpVC(n, d, e, One, Emin - 1) < 0

(***************************************************************************)
(* Functional rounding.  OverflowRule: Inf iff the value rounded with an   *)
(* unbounded upper exponent exceeds MaxFinite = Cmax * 10^Emax.            *)
(***************************************************************************)
RoundUp(m, neg, half, exact, odd) ==
  CASE m = RNE -> half > 0 \/ (half = 0 /\ odd)
    [] m = RNA -> half >= 0
    [] m = RTZ -> FALSE
    [] m = RAZ -> ~exact
    [] m = RNI -> neg /\ ~exact
    [] m = RPI -> ~neg /\ ~exact
    [] OTHER -> FALSE

RoundRat(neg, n, d, e, m) ==
  IF Flushes(n, d, e) THEN Fin(neg, << >>, Emin) ELSE
  LET q  == QPos(n, d, e)
      fl == FloorAt(n, d, e, q)
      c  == fl[1]
      up == RoundUp(m, neg, fl[2], fl[3], IsOdd(c))
      c1 == IF up THEN Add(c, One) ELSE c
      over == Lt(Cmax, c1)                          \* carry out of Cmax lands on ((Cmax+1)/10) * 10^(q+1)
      c2 == IF over THEN CmaxP1Div10 ELSE c1
      q2 == IF over THEN q + 1 ELSE q
      fits == q2 <= Emax \/ (q2 - Emax <= PDigits /\ Le(MulPow10(c2, q2 - Emax), Cmax))
  IN IF fits THEN (IF q2 <= Emax THEN Fin(neg, c2, q2) ELSE Fin(neg, MulPow10(c2, q2 - Emax), Emax))
     ELSE InfV(neg)

(***************************************************************************)
(* Declarative rounding: r is the member the mode selects for v.  Uses     *)
(* comparison and multiplication only.                                     *)
(***************************************************************************)
\* maximal-digit normal form of a non-zero member
NormMax(c, q) ==
  LET RECURSIVE f(_, _)
      f(cc, qq) == IF qq > Emin /\ Le(MulSmall(cc, 10), Cmax) THEN f(MulSmall(cc, 10), qq - 1) ELSE <<cc, qq>>
  IN f(c, q)
\* successor / predecessor in the format with an unbounded upper exponent
SuccM(c, q) == IF c = << >> THEN <<One, Emin>> ELSE
               LET nm == NormMax(c, q)  c1 == Add(nm[1], One)
               IN IF Lt(Cmax, c1) THEN <<CmaxP1Div10, nm[2] + 1>> ELSE <<c1, nm[2]>>
PredM(c, q) == LET nm == NormMax(c, q)
               IN IF nm[1] = CmaxP1Div10 /\ nm[2] > Emin THEN <<Cmax, nm[2] - 1>> ELSE <<Sub(nm[1], One), nm[2]>>
IsLower(n, d, e, c, q) == CmpVC(n, d, e, c, q) >= 0 /\ LET s == SuccM(c, q) IN CmpVC(n, d, e, s[1], s[2]) < 0
IsUpper(n, d, e, c, q) == CmpVC(n, d, e, c, q) <= 0 /\ c # << >> /\ LET p == PredM(c, q) IN CmpVC(n, d, e, p[1], p[2]) > 0
\* sign of 2v - (c1*10^q1 + c2*10^q2)
CmpMid(n, d, e, c1, q1, c2, q2) ==
  \* quick decision on digit counts (also keeps astronomically distant exponents from being expanded)
  LET dn == NumDigits(n)  dd == NumDigits(d)
      hiV == dn - dd + 1 + e                                       \* v < 10^hiV
      loV == dn - dd - 1 + e                                       \* v > 10^loV
      hiS == Max2(NumDigits(c1) + q1, NumDigits(c2) + q2) + 1      \* c1*10^q1 + c2*10^q2 < 10^hiS
      loS == IF c2 = << >> THEN NumDigits(c1) - 1 + q1
             ELSE IF c1 = << >> THEN NumDigits(c2) - 1 + q2
             ELSE Max2(NumDigits(c1) - 1 + q1, NumDigits(c2) - 1 + q2)   \* the sum is >= 10^loS
  IN IF n # << >> /\ loV >= hiS THEN 1
     ELSE IF (c1 # << >> \/ c2 # << >>) /\ hiV + 1 <= loS THEN -1
     ELSE LET lo == Min2(e, Min2(q1, q2))
              s  == Add(MulPow10(c1, q1 - lo), MulPow10(c2, q2 - lo))
          IN Cmp(MulPow10(MulSmall(n, 2), e - lo), IF d = One THEN s ELSE Mul(s, d))
OddMax(c, q) == c # << >> /\ IsOdd(NormMax(c, q)[1])

IsRoundingFin(neg, n, d, e, c, q, m) ==
  LET lower == IsLower(n, d, e, c, q)
      upper == IsUpper(n, d, e, c, q)
      s == SuccM(c, q)
      p == IF c = << >> THEN << << >>, Emin>> ELSE PredM(c, q)
      midUp == CmpMid(n, d, e, c, q, s[1], s[2])
      midDn == IF c = << >> THEN 1 ELSE CmpMid(n, d, e, p[1], p[2], c, q)
  IN CASE CmpVC(n, d, e, c, q) = 0 -> TRUE
       [] m = RTZ -> lower
       [] m = RAZ -> upper
       [] m = RNI -> IF neg THEN upper ELSE lower
       [] m = RPI -> IF neg THEN lower ELSE upper
       [] m = RNA -> (lower /\ midUp < 0) \/ (upper /\ midDn >= 0)
       [] m = RNE -> \/ lower /\ (midUp < 0 \/ (midUp = 0 /\ ~OddMax(c, q)))
                     \/ upper /\ (midDn > 0 \/ (midDn = 0 /\ ~OddMax(c, q)))
       [] OTHER -> FALSE

IsRounding(neg, n, d, e, r, m) ==
  IF Flushes(n, d, e) THEN r.k = "fin" /\ r.c = << >> /\ r.neg = neg ELSE
  IF r.k = "inf" THEN
     /\ r.neg = neg
     /\ LET s == SuccM(Cmax, Emax)                  \* first member above MaxFinite if exponents were unbounded
            above == CmpVC(n, d, e, Cmax, Emax) > 0
            atS == CmpVC(n, d, e, s[1], s[2]) >= 0
            mid == CmpMid(n, d, e, Cmax, Emax, s[1], s[2])
        IN CASE m = RTZ -> atS
             [] m = RAZ -> above
             [] m = RNI -> IF neg THEN above ELSE atS
             [] m = RPI -> IF neg THEN atS ELSE above
             [] m \in {RNA, RNE} -> mid >= 0          \* Cmax is odd: the tie goes up
             [] OTHER -> FALSE
  ELSE /\ r.k = "fin" /\ r.neg = neg /\ r.q >= Emin /\ r.q <= Emax /\ Le(r.c, Cmax)
       /\ IsRoundingFin(neg, n, d, e, r.c, r.q, m)

\* |v - r| <= ulp-ish closeness is not defined here; accuracy-type properties use Elementary.tla
=============================================================================
