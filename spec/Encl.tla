-------------------------------- MODULE Encl --------------------------------
(***************************************************************************)
(* Numeric oracle for C16 and the general path of C18: rigorous enclosures *)
(* of e^a in 72-digit fixed point (every operation rounds down, explicit   *)
(* slack terms keep [L, U] an enclosure), exact rational series bounds for *)
(* tiny arguments, and *certification* for logarithms: r is within u of    *)
(* ln x iff e^(r-u) <= x <= e^(r+u), so no logarithm is ever computed.     *)
(* Verdicts: "ok" / "ok+" / "reject" / "undecided:...".  An enclosure too  *)
(* wide to decide never becomes a violation.                               *)
(* The constants LN10, LN2 are typed digits; they are certified by ASSUMEs *)
(* of the same shape (e^(LN10-D) <= 10 <= e^(LN10+D)), evaluated by TLC.   *)
(***************************************************************************)
EXTENDS Elem

B2SE(b) == IF b THEN "ok" ELSE "reject"
P == 72
S == Pow10(P)
DD == 6                       \* constants are trusted only to +- 10^DD units of the last place
DU == Pow10(DD)
LN10 == FromDigits(<<2,3,0,2,5,8,5,0,9,2,9,9,4,0,4,5,6,8,4,0,1,7,9,9,1,4,5,4,6,8,4,3,6,4,2,0,7,6,0,1,1,0,1,4,8,8,6,2,8,7,7,2,9,7,6,0,3,3,3,2,7,9,0,0,9,6,7,5,7,2,6,0,9>>)
LN2 == FromDigits(<<6,9,3,1,4,7,1,8,0,5,5,9,9,4,5,3,0,9,4,1,7,2,3,2,1,2,1,4,5,8,1,7,6,5,6,8,0,7,5,5,0,0,1,3,4,3,6,0,2,5,5,2,5,4,1,2,0,6,8,0,0,0,9,4,9,3,3,9,3,6,2,1>>)

FxMul(a, b) == DivPow10(Mul(a, b), P)                     \* floor(a*b / S)

\* <<EL, EU>>:  EL <= e^(T/S) * S <= EU   for 0 <= T <= 2.5 * S
ExpSmall(T) ==
  LET T16 == DivModSmall(T, 16)[1]                        \* t/16 < 0.16: 38 Taylor terms leave < 10^-78
      step(acc, n) == LET term == DivModSmall(FxMul(acc[2], T16), n)[1] IN <<Add(acc[1], term), term>>
      sum == FoldLeft(step, <<S, S>>, [n \in 1..38 |-> n])[1]      \* every step truncates: a lower bound
      sq(p) == <<FxMul(p[1], p[1]), Add(FxMul(p[2], p[2]), One)>>     \* squaring keeps the enclosure
  IN sq(sq(sq(sq(<<sum, Add(sum, FromInt(150))>>))))                  \* truncation + remainder + T16 slack < 150

ASSUME ConstantsCertified ==
  /\ Le(ExpSmall(Sub(LN10, DU))[2], MulSmall(S, 10)) /\ Le(MulSmall(S, 10), ExpSmall(Add(LN10, DU))[1])
  /\ Le(ExpSmall(Sub(LN2, DU))[2], MulSmall(S, 2)) /\ Le(MulSmall(S, 2), ExpSmall(Add(LN2, DU))[1])

(***************************************************************************)
(* e^a for |a| * S in [Xlo, Xhi] (integers), sign neg, |a| < 10^6.         *)
(* Result [L, U, kk]:  L * 10^(kk-P) <= e^a <= U * 10^(kk-P).              *)
(***************************************************************************)
ExpEnclFx(neg, Xlo, Xhi) ==
  LET qr == DivMod(Xlo, LN10)
      kp == ToInt(qr[1])
      R  == qr[2]
      w  == Sub(Xhi, Xlo)
      slackT == Add(Add(MulPow10(FromInt(kp), DD), w), One)        \* |t*S - R| <= slackT, t = |a| - kp ln10
  IN IF ~neg THEN
       LET E == ExpSmall(R)
       IN [L |-> Monus(E[1], Add(MulSmall(slackT, 11), One)), U |-> Add(E[2], Add(MulSmall(slackT, 22), One)), kk |-> kp]
     ELSE
       LET Qc == Sub(LN10, R)                                       \* -|a| = -(kp+1) ln10 + (ln10 - t)
           slack2 == Add(slackT, DU)
           E == ExpSmall(Qc)
       IN [L |-> Monus(E[1], Add(MulSmall(slack2, 11), One)), U |-> Add(E[2], Add(MulSmall(slack2, 22), One)), kk |-> 0 - kp - 1]

\* |x| * S for a decimal magnitude c * 10^q, as an integer interval <<lo, hi>>
FxOfDec(c, q) == IF q + P >= 0 THEN LET v == MulPow10(c, q + P) IN <<v, v>>
                 ELSE LET v == DivPow10(c, 0 - (q + P)) IN <<v, Add(v, One)>>
\* |x| * K * S where K*S is known to lie in [KC - DU, KC + DU] (KC = LN2 or LN10)
FxOfDecTimes(c, q, KC) ==
  LET lo == Mul(c, Sub(KC, DU))   hi == Mul(c, Add(KC, DU))
  IN IF q >= 0 THEN <<MulPow10(lo, q), MulPow10(hi, q)>>
     ELSE <<DivPow10(lo, 0 - q), Add(DivPow10(hi, 0 - q), One)>>

-----------------------------------------------------------------------------
(* A true value t* of sign `neg` with lo <= |t*| <= hi, lo = <<n, d, e>> (n/d * 10^e), against the reported r.   *)
(* u = format spacing at the true result (the larger one if the interval straddles a decade).                      *)
RAdd(c, q, qu) == LET m == Min2(q, qu) IN <<Add(MulPow10(c, q - m), Pow10(qu - m)), m>>
RSubOrZero(c, q, qu) == LET m == Min2(q, qu)  a == MulPow10(c, q - m)  b == Pow10(qu - m)
                        IN IF Le(a, b) THEN << << >>, m>> ELSE <<Sub(a, b), m>>
Cmp3(v, c, q) == CmpVC(v[1], v[2], v[3], c, q)

WithinUlpVerdict(neg, lo, hi, r, extraN, extraD) ==
  \* extra: additional relative allowance extraN/extraD of the true value (0 for C16)
  IF r.k = "nan" THEN "reject:nan"
  ELSE IF r.k = "inf" THEN
       (IF r.neg # neg THEN "reject:sign"
        ELSE IF Cmp3(lo, Cmax, Emax) > 0 THEN "ok"
        ELSE IF Cmp3(hi, Cmax, Emax) <= 0 THEN "reject:inf-for-representable" ELSE "undecided:overflow-edge")
  ELSE IF ~IsZero(r) /\ r.neg # neg THEN "reject:sign"
  ELSE LET qu == Max2(QPos(lo[1], lo[2], lo[3]), QPos(hi[1], hi[2], hi[3]))
           up == RAdd(r.c, r.q, qu)
           dn == RSubOrZero(r.c, r.q, qu)
           \* allowance eps = extraN/extraD relative to the true value:  |r - t| <= u + eps * t
           none == extraN = << >>
           scl(v, f) == IF none THEN v ELSE <<Mul(v[1], f), Mul(v[2], extraD), v[3]>>
           minus == IF none THEN One ELSE Monus(extraD, extraN)
           plus == IF none THEN One ELSE Add(extraD, extraN)
           loM == scl(lo, minus)   loP == scl(lo, plus)   hiM == scl(hi, minus)   hiP == scl(hi, plus)
           \* accept: r + u >= hi (1 - eps) and r - u <= lo (1 + eps);  reject: r + u < lo (1 - eps) or r - u > hi (1 + eps)
       IN IF (hiM[1] = << >> \/ Cmp3(hiM, up[1], up[2]) <= 0) /\ (dn[1] = << >> \/ Cmp3(loP, dn[1], dn[2]) >= 0) THEN "ok+"
          ELSE IF (loM[1] # << >> /\ Cmp3(loM, up[1], up[2]) > 0) \/ (dn[1] # << >> /\ Cmp3(hiP, dn[1], dn[2]) < 0) THEN "reject"
          ELSE "undecided:enclosure-too-wide"

EnclAsBounds(en) == << <<en.L, One, en.kk - P>>, <<en.U, One, en.kk - P>> >>

-----------------------------------------------------------------------------
(* exact cases with rational results: the correctly rounded neighbours; exact when representable *)
RationalVerdict(neg, n, d, e, r) ==
  IF r.k # "fin" \/ (r.neg # neg /\ ~IsZero(r)) THEN
       (IF r.k = "inf" /\ r.neg = neg /\ RoundRat(neg, n, d, e, RAZ).k = "inf" THEN "ok" ELSE "reject")
  ELSE IF IsRounding(neg, n, d, e, r, RTZ) \/ IsRounding(neg, n, d, e, r, RAZ) THEN
       (IF CmpVC(n, d, e, r.c, r.q) = 0 THEN "ok" ELSE "ok+")
  ELSE "reject"

\* is the finite non-zero x an integer power of `base` (2 or 10) ?  <<TRUE, k>> with x = base^k
Log2Int(x) ==      \* exact binary logarithm when x = 2^k (k may be negative: x = 5^-k * 10^k)
  LET tz == TrailingZeros(x.c)
      c0 == DivPow10(x.c, tz)   q0 == x.q + tz
      bl == BitLen(c0)
  IN IF q0 >= 0 THEN (IF q0 = 0 /\ c0 = Pow2(bl - 1) THEN <<TRUE, bl - 1>> ELSE <<FALSE, 0>>)
     ELSE (IF q0 >= 0 - 60 /\ c0 = Pow5(0 - q0) THEN <<TRUE, q0>> ELSE <<FALSE, 0>>)

SmallIntOf(x) == (IF x.neg THEN 0 - 1 ELSE 1) * SmallInt(x)

-----------------------------------------------------------------------------
(* series bounds for e^A - style comparisons with tiny A = a * 10^e (a BigNat, e < 0), exact rationals <<n, d, e>> *)
SerPosLo(a, e) == <<Add(Add(MulSmall(Pow10(0 - 2*e), 2), MulPow10(MulSmall(a, 2), 0 - e)), Mul(a, a)), <<2>>, 2*e>>           \* 1 + A + A^2/2
SerPosHi(a, e) == <<Add(Add(Add(MulSmall(Pow10(0 - 3*e), 10), MulPow10(MulSmall(a, 10), 0 - 2*e)), MulPow10(MulSmall(Mul(a, a), 5), 0 - e)),
                        MulSmall(PowN(a, 3), 2)), <<10>>, 3*e>>                                                             \* + A^3/5
SerNegHi(a, e) == <<Add(Sub(MulSmall(Pow10(0 - 2*e), 2), MulPow10(MulSmall(a, 2), 0 - e)), Mul(a, a)), <<2>>, 2*e>>           \* 1 - z + z^2/2
SerNegLo(a, e) == <<Sub(Add(Sub(MulSmall(Pow10(0 - 3*e), 6), MulPow10(MulSmall(a, 6), 0 - 2*e)), MulPow10(MulSmall(Mul(a, a), 3), 0 - e)),
                        PowN(a, 3)), <<6>>, 3*e>>                                                                           \* - z^3/6

\* bounds <<lo, hi>> of e^A for a signed decimal interval A in [(-1)^neg alo*10^e, (-1)^neg ahi*10^e]  (alo <= ahi magnitudes)
IsTiny(a, e) == a = << >> \/ NumDigits(a) + e < 0 - 20
ExpBounds(neg, alo, ahi, e) ==
  IF IsTiny(ahi, e) /\ e < 0 THEN
       (IF ~neg THEN <<SerPosLo(alo, e), SerPosHi(ahi, e)>> ELSE <<SerNegLo(ahi, e), SerNegHi(alo, e)>>)
  ELSE LET xlo == FxOfDec(alo, e)[1]   xhi == FxOfDec(ahi, e)[2]
           en == ExpEnclFx(neg, xlo, xhi)
       IN EnclAsBounds(en)

-----------------------------------------------------------------------------
(* certification of a logarithm-type result:  F * r in ln(target) +- F * u                                          *)
(* target = <<n, d, e>> > 0;  r the reported value;  KC = << >> for the natural logarithm, else LN2 / LN10        *)
LogCertVerdict(target, r, KC) ==
  IF r.k # "fin" THEN "reject:class"
  ELSE IF IsZero(r) THEN (IF CmpVC(target[1], target[2], target[3], One, 0) = 0 THEN "ok" ELSE "reject:zero")
  ELSE LET nm == NormMax(r.c, r.q)
           qu == nm[2]
           up == RAdd(r.c, r.q, qu)            \* |r| + u
           dn == RSubOrZero(r.c, r.q, qu)      \* |r| - u  (or zero)
           \* the two arguments b1 < b2 (signed): for r > 0 they are dn, up; for r < 0 they are -up, -dn
           mag(b) == IF KC = << >> THEN <<b[1], b[1], b[2]>>
                     ELSE <<Mul(b[1], Sub(KC, DU)), Mul(b[1], Add(KC, DU)), b[2] - P>>     \* <<alo, ahi, e>>
           mUp == mag(up)   mDn == mag(dn)
           bLow == IF r.neg THEN ExpBounds(TRUE, mUp[1], mUp[2], mUp[3]) ELSE ExpBounds(FALSE, mDn[1], mDn[2], mDn[3])
           bHigh == IF r.neg THEN ExpBounds(TRUE, mDn[1], mDn[2], mDn[3]) ELSE ExpBounds(FALSE, mUp[1], mUp[2], mUp[3])
           cmpT(v) == CmpVC(Mul(target[1], v[2]), Mul(target[2], v[1]), target[3] - v[3], One, 0)    \* sign of target - v
           \* need  e^(low arg) <= target <= e^(high arg)
           lowSure == cmpT(bLow[2]) >= 0        lowBroken == cmpT(bLow[1]) < 0
           highSure == cmpT(bHigh[1]) <= 0      highBroken == cmpT(bHigh[2]) > 0
       IN IF lowSure /\ highSure THEN "ok+"
          ELSE IF lowBroken \/ highBroken THEN "reject"
          ELSE "undecided:enclosure-too-wide"

-----------------------------------------------------------------------------
(* the package constants: E() = e, Pi() = pi (Machin: 16 atan(1/5) - 4 atan(1/239), alternating series bracket the   *)
(* limit), Phi() = (1 + sqrt 5)/2 (decided by an integer inequality).  Each must be the correctly rounded value.      *)
AtanInvBounds(k) ==      \* <<lo, hi>> of atan(1/k) * S : partial sums of an alternating series with decreasing terms
  LET k2 == k * k
      term0 == DivModSmall(S, k)[1]                                  \* floor(S / k)
      \* t_j = S / (k^(2j+1) (2j+1)); computed by repeated division (truncation errors < 1 unit each, 60 terms)
      step(acc, j) == LET p == DivModSmall(acc[3], k2)[1]            \* floor(S / k^(2j+1))
                          t == DivModSmall(p, 2 * j + 1)[1]
                      IN IF j % 2 = 1 THEN <<acc[1], Add(acc[2], t), p>> ELSE <<Add(acc[1], t), acc[2], p>>
      r == FoldLeft(step, <<term0, << >>, term0>>, [j \in 1..60 |-> j])   \* <<sum of positive terms, sum of negative terms, last power>>
      plus == r[1]   minus == r[2]
  IN <<Monus(Sub(plus, minus), FromInt(200)), Add(Sub(plus, minus), FromInt(200))>>     \* truncation slack (<= 2 units per term)
PiBounds == LET a == AtanInvBounds(5)   b == AtanInvBounds(239)
            IN <<Sub(MulSmall(a[1], 16), MulSmall(b[2], 4)), Sub(MulSmall(a[2], 16), MulSmall(b[1], 4))>>
HalfUlpVerdict(lo, hi, r) ==     \* lo <= c*S <= hi (fixed point); r must be the member nearest to c
  IF r.k # "fin" \/ r.neg \/ IsZero(r) THEN "reject"
  ELSE LET nm == NormMax(r.c, r.q)
           two == MulSmall(nm[1], 2)
       IN \* (2 cn - 1) * 10^qn / 2 <= c <= (2 cn + 1) * 10^qn / 2
          \* lo, hi are given doubled (2c*S): compare 2c with (2cn -+ 1) * 10^qn
          IF CmpVC(lo, One, 0 - P, Sub(two, One), nm[2]) >= 0 /\ CmpVC(hi, One, 0 - P, Add(two, One), nm[2]) <= 0 THEN "ok+"
          ELSE IF CmpVC(hi, One, 0 - P, Sub(two, One), nm[2]) < 0 \/ CmpVC(lo, One, 0 - P, Add(two, One), nm[2]) > 0 THEN "reject"
          ELSE "undecided:constant"
ConstVerdict(name, r) ==
  CASE name = "E" -> LET en == ExpEnclFx(FALSE, S, S) IN HalfUlpVerdict(MulSmall(MulPow10(en.L, en.kk), 2), MulSmall(MulPow10(en.U, en.kk), 2), r)
    [] name = "Pi" -> HalfUlpVerdict(MulSmall(PiBounds[1], 2), MulSmall(PiBounds[2], 2), r)
    [] name = "Phi" ->    \* phi nearest to r  <=>  (2 (r -+ u/2) - 1)^2 brackets 5, i.e. with r = cn 10^qn:  ((2cn -+ 1) 10^qn - 1)^2 vs 5
         IF r.k # "fin" \/ r.neg THEN "reject"
         ELSE LET nm == NormMax(r.c, r.q)
                  sc == 0 - nm[2]                                   \* qn < 0: scale by 10^sc
                  lo == Sub(Sub(MulSmall(nm[1], 2), One), Pow10(sc))      \* (2cn - 1) - 10^sc
                  hi == Sub(Add(MulSmall(nm[1], 2), One), Pow10(sc))
                  five == MulSmall(Pow10(2 * sc), 5)
              IN B2SE(Le(Mul(lo, lo), five) /\ Le(five, Mul(hi, hi)))

EnclVerdict(op, x, r) ==
  LET huge == NumDigits(x.c) + x.q > 6                     \* |x| >= 10^6: far beyond every threshold
      xfx == FxOfDec(x.c, x.q)
  IN CASE op = "Exp" ->
            IF huge THEN (IF x.neg THEN B2SE(IsZero(r) /\ ~r.neg) ELSE B2SE(r.k = "inf" /\ ~r.neg))
            ELSE LET b == EnclAsBounds(ExpEnclFx(x.neg, xfx[1], xfx[2])) IN WithinUlpVerdict(FALSE, b[1], b[2], r, << >>, One)
       [] op \in {"Exp2", "Exp10"} ->
            IF huge THEN (IF x.neg THEN B2SE(IsZero(r) /\ ~r.neg) ELSE B2SE(r.k = "inf" /\ ~r.neg))
            ELSE IF IsInteger(x) /\ op = "Exp10" THEN RationalVerdict(FALSE, One, One, SmallIntOf(x), r)
            ELSE IF IsInteger(x) /\ op = "Exp2" /\ SmallInt(x) <= 400 THEN
                 (IF x.neg THEN RationalVerdict(FALSE, One, Pow2(SmallInt(x)), 0, r) ELSE RationalVerdict(FALSE, Pow2(SmallInt(x)), One, 0, r))
            ELSE LET kc == IF op = "Exp2" THEN LN2 ELSE LN10
                     a == FxOfDecTimes(x.c, x.q, kc)
                     b == EnclAsBounds(ExpEnclFx(x.neg, a[1], a[2]))
                 IN WithinUlpVerdict(FALSE, b[1], b[2], r, << >>, One)
       [] op = "Expm1" ->
            IF huge THEN (IF x.neg THEN B2SE(ResEq(r, OneV(TRUE))) ELSE B2SE(r.k = "inf" /\ ~r.neg))
            ELSE IF NumDigits(x.c) + x.q < 0 - 18 THEN          \* |x| < 10^-18: exact series bounds
                 LET c == x.c  q == x.q
                     \* x > 0:  x + x^2/2 <= expm1 <= x + x^2/2 + x^3/5 ;  x < 0 (z = |x|):  z - z^2/2 <= 1 - e^-z <= z - z^2/2 + z^3/6
                     lo == IF ~x.neg THEN <<Add(MulPow10(MulSmall(c, 2), 0 - q), Mul(c, c)), <<2>>, 2*q>>
                           ELSE <<Sub(MulPow10(MulSmall(c, 2), 0 - q), Mul(c, c)), <<2>>, 2*q>>
                     hi == IF ~x.neg THEN <<Add(Add(MulPow10(MulSmall(c, 10), 0 - 2*q), MulPow10(MulSmall(Mul(c, c), 5), 0 - q)), MulSmall(PowN(c, 3), 2)), <<10>>, 3*q>>
                           ELSE <<Add(Sub(MulPow10(MulSmall(c, 6), 0 - 2*q), MulPow10(MulSmall(Mul(c, c), 3), 0 - q)), PowN(c, 3)), <<6>>, 3*q>>
                 IN WithinUlpVerdict(x.neg, lo, hi, r, << >>, One)
            ELSE LET en == ExpEnclFx(x.neg, xfx[1], xfx[2])
                     \* e^x in [L, U] * 10^(kk-P);  expm1 = e^x - 1
                 IN IF ~x.neg THEN
                       LET lo == <<Sub(MulPow10(en.L, en.kk), S), One, 0 - P>>
                           hi == <<Sub(MulPow10(en.U, en.kk), S), One, 0 - P>>
                       IN WithinUlpVerdict(FALSE, lo, hi, r, << >>, One)
                    ELSE
                       LET sc == MulPow10(S, 0 - en.kk)                          \* S * 10^-kk  (kk <= -1)
                           lo == <<Monus(sc, en.U), One, en.kk - P>>            \* 1 - e^x = (sc - [L,U]) * 10^(kk-P)
                           hi == <<Sub(sc, en.L), One, en.kk - P>>
                       IN WithinUlpVerdict(TRUE, lo, hi, r, << >>, One)
       [] op = "Log" -> LogCertVerdict(<<x.c, One, x.q>>, r, << >>)
       [] op = "Log2" -> LET pw == Log2Int(x) IN
                         IF pw[1] THEN B2SE(ResEq(r, Fin(pw[2] < 0, FromInt(AbsI(pw[2])), 0)))
                         ELSE LogCertVerdict(<<x.c, One, x.q>>, r, LN2)
       [] op = "Log10" -> LET pt == PowTen(x) IN
                          IF pt[1] THEN B2SE(ResEq(r, Fin(pt[2] < 0, FromInt(AbsI(pt[2])), 0)))
                          ELSE LogCertVerdict(<<x.c, One, x.q>>, r, LN10)
       [] op = "Log1p" ->
            \* target 1 + x  (x > -1 here): (10^-q + c) * 10^q for q < 0, (1 + c*10^q) otherwise
            LET tgt == IF x.q >= 0 THEN <<Add(One, MulPow10(x.c, x.q)), One, 0>>
                       ELSE IF ~x.neg THEN <<Add(Pow10(0 - x.q), x.c), One, x.q>> ELSE <<Sub(Pow10(0 - x.q), x.c), One, x.q>>
            IN IF NumDigits(x.c) + x.q < 0 - 300 THEN           \* |x| < 10^-300: ln(1+x) lies in (x (1 - 10^-100), x) resp. its mirror image
                    (IF ~x.neg THEN RationalVerdict(FALSE, Sub(MulPow10(x.c, 100), One), One, x.q - 100, r)
                     ELSE RationalVerdict(TRUE, Add(MulPow10(x.c, 100), One), One, x.q - 100, r))
               ELSE LogCertVerdict(tgt, r, << >>)

(***************************************************************************)
(* General Pow (C18): x^y = e^(y * ln|x|).  The driver supplies W, an      *)
(* untrusted 60-digit approximation of ln|x| (w = [neg, l, e]: value       *)
(* (-1)^neg * l * 10^e); it is certified here before use.  Budget: one ulp *)
(* plus the relative term |y| * (4e-37 |ln|x|| + 1e-55).                   *)
(***************************************************************************)
EnclPowVerdictW(x, y, r, m, w, negRes) ==
  IF w.l = << >> THEN "undecided:no-witness"
  ELSE LET nd == NumDigits(w.l)
           \* delta: 10^-48 relative to W
           dl == Max2(1, nd - 48)
           wlo == <<Monus(MulPow10(w.l, 0), Pow10(dl)), w.e>>          \* (|W| - 10^dl) * 10^e
           whi == <<Add(w.l, Pow10(dl)), w.e>>
           \* certify: e^(W-) <= |x| <= e^(W+)
           bLow == IF w.neg THEN ExpBounds(TRUE, whi[1], whi[1], whi[2]) ELSE ExpBounds(FALSE, wlo[1], wlo[1], wlo[2])
           bHigh == IF w.neg THEN ExpBounds(TRUE, wlo[1], wlo[1], wlo[2]) ELSE ExpBounds(FALSE, whi[1], whi[1], whi[2])
           cmpX(v) == CmpVC(Mul(x.c, v[2]), v[1], x.q - v[3], One, 0)
           certified == cmpX(bLow[2]) >= 0 /\ cmpX(bHigh[1]) <= 0
       IN IF ~certified THEN "undecided:witness-not-certified"
          ELSE LET \* A = y * ln|x|, sign = y.neg # w.neg, magnitude in [y.c*wlo, y.c*whi] * 10^(y.q + w.e)
                   aneg == y.neg # w.neg
                   alo == Mul(y.c, wlo[1])   ahi == Mul(y.c, whi[1])   ae == y.q + w.e
                   big == NumDigits(ahi) + ae > 6
                   \* allowance eps <= 4e-37 * |y ln x| + 1e-55 * |y|, as extraN / 10^60 (rounded up)
                   up10(v, k) == IF k >= 0 THEN MulPow10(v, k) ELSE Add(DivPow10(v, 0 - k), One)
                   allowN == Add(Add(up10(MulSmall(ahi, 4), ae + 23), up10(y.c, y.q + 5)), One)
               IN IF big THEN (IF aneg THEN B2SE(IsZero(r)) ELSE B2SE(r.k = "inf"))
                  ELSE LET b == ExpBounds(aneg, alo, ahi, ae)
                       IN WithinUlpVerdict(negRes, b[1], b[2], r, allowN, Pow10(60))
=============================================================================
