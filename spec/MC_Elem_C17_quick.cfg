SPECIFICATION Spec
CONSTANTS CmaxI = 129  EminNeg = 2  Emax = 2  Family = "root"
INVARIANTS RootsExact
CHECK_DEADLOCK FALSE
