SPECIFICATION Spec
CONSTANTS CmaxI = 1299  EminNeg = 12  Emax = 12  Family = "str"  MaxLen = 1
INVARIANTS StringExactMinimalRoundTrip
CHECK_DEADLOCK FALSE
