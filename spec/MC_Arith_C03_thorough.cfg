SPECIFICATION Spec
CONSTANTS CmaxI = 129  EminNeg = 2  Emax = 2
CONSTANT Ops = {"QuoRem"}
INVARIANTS CorrectlyRounded QuoRemOK NaNExactlyWhenInvalid Laws CohortIndependent
CHECK_DEADLOCK FALSE
