SPECIFICATION Spec
CONSTANTS CmaxI = 19  EminNeg = 3  Emax = 3  Family = "syn"  MaxLen = 5
INVARIANTS SyntaxExact ValueExact ScanAgreesWithParse
CHECK_DEADLOCK FALSE
