SPECIFICATION Spec
CONSTANTS CmaxI = 0  EminNeg = 6176  Emax = 6111  ModeSet = {0, 2, 4}  Families = {"unary", "pow", "bin", "quorem", "minmax", "cmp"}
INVARIANTS WellFormed Emit
CHECK_DEADLOCK FALSE
