SPECIFICATION Spec
CONSTANTS CmaxI = 39  EminNeg = 2  Emax = 2  Family = "compose"  NMax = 5000  EWin = 6
INVARIANTS ComposeExactOrError ComposeForms
CHECK_DEADLOCK FALSE
