SPECIFICATION Spec
CONSTANTS CmaxI = 129  EminNeg = 3  Emax = 3  Family = "compose"  NMax = 20000  EWin = 8
INVARIANTS ComposeExactOrError ComposeForms
CHECK_DEADLOCK FALSE
