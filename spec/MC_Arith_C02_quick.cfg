SPECIFICATION Spec
CONSTANTS CmaxI = 19  EminNeg = 1  Emax = 1
CONSTANT Ops = {"Mul", "Quo"}
INVARIANTS CorrectlyRounded QuoRemOK NaNExactlyWhenInvalid Laws CohortIndependent
CHECK_DEADLOCK FALSE
