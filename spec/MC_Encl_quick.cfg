SPECIFICATION Spec
CONSTANTS CmaxI = 0  EminNeg = 6176  Emax = 6111  NMax = 100
INVARIANTS TaylorLowerOK Narrow Reciprocal ConstantsReproduce VerdictsBite
CHECK_DEADLOCK FALSE
