-------------------------------- MODULE Codec --------------------------------
(***************************************************************************)
(* C13 (JSON) and C14 (database/sql Compose / Decompose).                  *)
(***************************************************************************)
EXTENDS Text

-----------------------------------------------------------------------------
\* RFC 8259 number: optional minus; 0 or a non-zero digit followed by digits; optional fraction (point and at least
\* one digit); optional exponent (e or E, optional sign, at least one digit)
JStep(st, b) ==
  CASE st = "start" -> IF b = 45 THEN "minus" ELSE IF b = 48 THEN "zero" ELSE IF IsDig(b) THEN "int" ELSE "err"
    [] st = "minus" -> IF b = 48 THEN "zero" ELSE IF IsDig(b) THEN "int" ELSE "err"
    [] st = "zero"  -> IF b = 46 THEN "dot" ELSE IF b \in {69, 101} THEN "e" ELSE "err"
    [] st = "int"   -> IF IsDig(b) THEN "int" ELSE IF b = 46 THEN "dot" ELSE IF b \in {69, 101} THEN "e" ELSE "err"
    [] st = "dot"   -> IF IsDig(b) THEN "frac" ELSE "err"
    [] st = "frac"  -> IF IsDig(b) THEN "frac" ELSE IF b \in {69, 101} THEN "e" ELSE "err"
    [] st = "e"     -> IF IsDig(b) THEN "exp" ELSE IF b \in {43, 45} THEN "esign" ELSE "err"
    [] st = "esign" -> IF IsDig(b) THEN "exp" ELSE "err"
    [] st = "exp"   -> IF IsDig(b) THEN "exp" ELSE "err"
    [] OTHER -> "err"
IsJsonNumber(s) == FoldLeft(JStep, "start", s) \in {"zero", "int", "frac", "exp"}
cNULL == <<110, 117, 108, 108>>

\* MarshalJSON output for a finite d: valid JSON number, denotes d exactly with its sign, no superfluous digits
JsonTextOK(d, t) ==
  LET ps == ParseNumber(IF d.neg THEN SubSeq(t, 2, Len(t)) ELSE t, d.neg, RNE)
      epos == SelectInSeq(t, LAMBDA b : b \in {69, 101})
      mant == IF epos = 0 THEN t ELSE SubSeq(t, 1, epos - 1)
      mdig == SelectSeq(mant, IsDig)
      firstNZ == SelectInSeq(mdig, LAMBDA b : b # 48)
      lastNZ == SelectLastInSeq(mdig, LAMBDA b : b # 48)
      sigdigs == IF firstNZ = 0 THEN << >> ELSE SubSeq(mdig, firstNZ, lastNZ)
      hasDot == SelectInSeq(mant, LAMBDA b : b = 46) # 0
  IN /\ IsJsonNumber(t)
     /\ (t[1] = 45) = d.neg
     /\ ps.err = "none" /\ ResEq(ps.val, d)
     /\ (IF IsZero(d) THEN Len(mdig) = 1
         ELSE /\ sigdigs = Chars(Sig(d).D)                                      \* exactly the significant digits
              /\ (hasDot => mdig[Len(mdig)] # 48)                               \* no trailing zero after the point
              /\ (epos # 0 => (firstNZ = 1)))                                   \* exponent form starts with a non-zero digit
     /\ (epos # 0 => LET ex == SubSeq(t, epos + 1, Len(t))
                         exd == SelectSeq(ex, IsDig)
                     IN Len(exd) <= 2 \/ exd[1] # 48)                           \* no padded exponent beyond two digits

-----------------------------------------------------------------------------
(* C14: Compose is exact-or-error.  sig: big-endian bytes; exp: an int32 (TLC ints hold it; it is only compared  *)
(* and shifted after a magnitude guard).  Result [err |-> "none"|"range"|"form", v |-> value]                     *)
ComposeSem(form, neg, sig, exp) ==
  IF form = 1 THEN [err |-> "none", v |-> InfV(neg)]
  ELSE IF form = 2 THEN [err |-> "none", v |-> NaNV]
  ELSE IF form # 0 THEN [err |-> "form", v |-> NaNV]
  ELSE LET N == FromBytesBE(sig) IN
       IF N = << >> THEN [err |-> "none", v |-> ZeroV(neg)]
       ELSE IF exp > 100000 \/ exp < 0 - 100000 THEN [err |-> "range", v |-> NaNV]     \* no coefficient of < 10^5 digits compensates
       ELSE LET tz == TrailingZeros(N)
                N0 == DivPow10(N, tz)
                e1 == exp + tz                                 \* exponent of the form without trailing zeros
            IN IF e1 < Emin THEN [err |-> "range", v |-> NaNV]         \* would need to drop a non-zero digit
               ELSE IF e1 <= Emax THEN
                    (IF Le(N0, Cmax) THEN [err |-> "none", v |-> Fin(neg, N0, e1)] ELSE [err |-> "range", v |-> NaNV])
               ELSE IF e1 - Emax <= PDigits /\ NumDigits(N0) + (e1 - Emax) <= PDigits + 1 /\ Le(MulPow10(N0, e1 - Emax), Cmax)
                    THEN [err |-> "none", v |-> Fin(neg, MulPow10(N0, e1 - Emax), Emax)]
               ELSE [err |-> "range", v |-> NaNV]

\* Decompose parts denote d exactly
DecomposeOK(d, form, neg, sig, exp) ==
  CASE d.k = "nan" -> form = 2
    [] d.k = "inf" -> form = 1 /\ neg = d.neg
    [] OTHER -> /\ form = 0 /\ neg = d.neg
                /\ LET N == FromBytesBE(sig) IN
                   IF IsZero(d) THEN N = << >> ELSE CmpMag(N, exp, d.c, d.q) = 0
=============================================================================
