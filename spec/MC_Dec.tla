------------------------------- MODULE MC_Dec -------------------------------
(* Kind-(A) check of the rounding definitions on a small format:             *)
(*   brute-force set semantics  <=>  RoundRat  <=>  IsRounding (+ uniqueness) *)
(* for every grid value v = n/d * 10^e, every mode, both signs.              *)
EXTENDS Dec, FiniteSets

CONSTANTS NMax, Chunks      \* n ranges over 0..NMax; Chunks initial states share the work between workers

VARIABLES stage, n, d, e, m, neg
vars == <<stage, n, d, e, m, neg>>

EGrid == {-3, -2, -1, 0}
Init == stage = 0 /\ n \in 0..(Chunks-1) /\ d = 1 /\ e = 0 /\ m = 0 /\ neg = FALSE
Next == /\ stage = 0 /\ stage' = 1
        /\ n' \in {k \in 0..NMax : k % Chunks = n}
        /\ d' \in {1, 2, 3} /\ e' \in EGrid /\ m' \in Modes /\ neg' \in BOOLEAN
Spec == Init /\ [][Next]_vars

\* ---- brute force over native integers: everything scaled by 6 * 10^3 ----
ExtQ == Emin..(Emax + 2)
M(c, q) == c * 6 * ToInt(Pow10(q + 3))
MemberVals == { M(c, q) : c \in 0..CmaxI, q \in ExtQ }
V == n * (6 \div d) * ToInt(Pow10(e + 3))
MaxFin == M(CmaxI, Emax)
FlushBelow == 6 * ToInt(Pow10(Emin - 1 + 3))
MaxOf(S) == CHOOSE s \in S : \A t \in S : t <= s
MinOf(S) == CHOOSE s \in S : \A t \in S : s <= t
\* coefficient of the maximal-digit representation of a member value
TopCoef(mv) == LET qs == { q \in ExtQ : mv % (6 * ToInt(Pow10(q + 3))) = 0 /\ mv \div (6 * ToInt(Pow10(q + 3))) <= CmaxI }
               IN mv \div (6 * ToInt(Pow10(MinOf(qs) + 3)))
Truth ==   \* <<"zero">> | <<"inf">> | <<"val", scaled member value>>
  IF V < FlushBelow THEN <<"zero">> ELSE
  LET lo == MaxOf({ mv \in MemberVals : mv <= V })
      hi == MinOf({ mv \in MemberVals : mv >= V })
      pick == IF lo = hi THEN lo ELSE
              CASE m = RTZ -> lo
                [] m = RAZ -> hi
                [] m = RNI -> IF neg THEN hi ELSE lo
                [] m = RPI -> IF neg THEN lo ELSE hi
                [] m = RNA -> IF 2 * V >= lo + hi THEN hi ELSE lo
                [] m = RNE -> IF 2 * V > lo + hi THEN hi ELSE IF 2 * V < lo + hi THEN lo
                              ELSE IF TopCoef(lo) % 2 = 0 THEN lo ELSE hi
  IN IF pick > MaxFin THEN <<"inf">> ELSE IF pick = 0 THEN <<"zero">> ELSE <<"val", pick>>

AsTruth(r) == IF r.k = "inf" THEN <<"inf">>
              ELSE IF r.c = << >> THEN <<"zero">>
              ELSE <<"val", M(ToInt(r.c), r.q)>>

nn == FromInt(n)
dd == FromInt(d)
AllResults == { Fin(neg, FromInt(c), q) : c \in 0..CmaxI, q \in Emin..Emax } \cup { InfV(neg) }

RoundingAgrees ==
  stage = 1 =>
    LET r == RoundRat(neg, nn, dd, e, m) IN
    /\ r.neg = neg
    /\ (r.k = "fin" => IsMember(r))
    /\ AsTruth(r) = Truth
    /\ IsRounding(neg, nn, dd, e, r, m)
    /\ \A r2 \in AllResults : IsRounding(neg, nn, dd, e, r2, m) => AsTruth(r2) = Truth
    /\ ~IsRounding(neg, nn, dd, e, Fin(~neg, r.c, r.q), m) \/ FALSE
=============================================================================
