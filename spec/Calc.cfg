SPECIFICATION Spec
CONSTANTS CmaxI = 0  EminNeg = 6176  Emax = 6111  Depth = 14  NReg = 3
INVARIANTS TypeOK RegistersAreMembers Emit
PROPERTY C20_ModeOnlyBySet
CHECK_DEADLOCK FALSE
