SPECIFICATION Spec
CONSTANTS CmaxI = 0  EminNeg = 6176  Emax = 6111  ModeSet = {3}  Families = {"quorem"}
INVARIANTS WellFormed Emit
CHECK_DEADLOCK FALSE
