SPECIFICATION Spec
CONSTANTS CmaxI = 0  EminNeg = 6176  Emax = 6111  Stride = 1  Chunks = 64
INVARIANT DecodeTotalAndInverse
CHECK_DEADLOCK FALSE
