SPECIFICATION Spec
CONSTANTS CmaxI = 129  EminNeg = 3  Emax = 3  Family = "root"
INVARIANTS RootsExact
CHECK_DEADLOCK FALSE
