SPECIFICATION Spec
CONSTANTS CmaxI = 129  EminNeg = 4  Emax = 4  Family = "root"
INVARIANTS RootsExact
CHECK_DEADLOCK FALSE
