------------------------------ MODULE SmallVals ------------------------------
(* The value universe of a small format (CmaxI > 0): every member with either sign, both     *)
(* infinities and a NaN.  Used by the exhaustive (kind A) models.                             *)
EXTENDS Dec, FiniteSets

Members == { Fin(neg, FromInt(c), q) : neg \in BOOLEAN, c \in 0..CmaxI, q \in Emin..Emax }
NaNOp   == [k |-> "nan", neg |-> FALSE, c |-> << >>, q |-> 0]
Specials == { InfV(FALSE), InfV(TRUE), NaNOp }
Values  == Members \cup Specials

CI(v) == ToInt(v.c)                                   \* coefficient as a native integer
P10I(k) == ToInt(Pow10(k))
\* magnitude in units of 10^Emin as a native integer
MagU(v) == CI(v) * P10I(v.q - Emin)
\* all members denoting the same value with the same sign
Cohort(v) == IF v.k # "fin" THEN {v}
             ELSE { w \in Members : w.neg = v.neg /\ CmpMag(w.c, w.q, v.c, v.q) = 0 }
\* the cohort member with the smallest exponent (one canonical pick per value)
IsLowest(v) == v.k # "fin" \/ \A w \in Cohort(v) : w.q >= v.q
=============================================================================
