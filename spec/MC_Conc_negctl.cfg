SPECIFICATION Spec
CONSTANTS CmaxI = 19  EminNeg = 1  Emax = 1  G = 2  WriterEnabled = TRUE  Calls = 1  PoolC = {1, 5, 15, 19}
INVARIANTS TypeOK ReturnsSequentialResult
CHECK_DEADLOCK FALSE
