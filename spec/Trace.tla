-------------------------------- MODULE Trace --------------------------------
(***************************************************************************)
(* Trace validation at the real format size (run kind D).                  *)
(* VERIF_TRACE names an ndjson file of recorded real calls: operation,     *)
(* operands as raw 16-byte patterns, mode, results as raw bytes, observed  *)
(* DefaultRoundingMode after the call, text outputs as byte tuples.        *)
(* The state is the calculator session: DefaultRoundingMode (`mode`) and   *)
(* the position in the trace.  Every event is one action of the session;   *)
(* its verdict is computed from the semantic functions.  A non-conforming  *)
(* step does NOT disable Next (the library is deterministic and its calls  *)
(* independent, so the rest of the trace is still checked): the verdict is *)
(* printed and counted, and the logged effect becomes the next state.      *)
(***************************************************************************)
EXTENDS Bid, Fmt, Json, IOUtils

Events == ndJsonDeserialize(IOEnv.VERIF_TRACE)

VARIABLES l, mode, bad
vars == <<l, mode, bad>>

Has(e, f) == f \in DOMAIN e
OkSet == {"ok", "ok+"}

EffMode(e) == IF Has(e, "wm") /\ e.wm THEN e.m ELSE mode

\* frame condition on the one piece of shared state
Frame(e) == ~Has(e, "dm") \/ e.dm = (IF e.op = "SetMode" THEN e.m ELSE mode)

\* observed result r (decoded), its bytes rb; ex the exact descriptor
ResultVerdict(ex, e, rb, pl, m) ==
  LET r == Decode(rb) IN
  IF ex.t = "val" /\ ex.v.k = "nan" THEN
     IF /\ r.k = "nan"
        /\ (ex.v.src = "x" => rb = e.x)
        /\ (ex.v.src = "y" => rb = e.y)
        /\ (ex.v.src = "any" => (rb = e.x \/ rb = e.y))
        /\ (ex.v.src = "new" => pl = ex.v.pl)
     THEN "ok" ELSE "reject:nan"
  ELSE Agrees(ex, r, m)

Bin2Verdict(e) ==
  LET x == Decode(e.x)  y == Decode(e.y)  m == EffMode(e)
      ex == CASE e.op = "Add" -> AddExact(x, y, m)
              [] e.op = "Sub" -> SubExact(x, y, m)
              [] e.op = "Mul" -> MulExact(x, y, m)
              [] e.op = "Quo" -> QuoExact(x, y, m)
  IN ResultVerdict(ex, e, e.r, e.pl, m)

QuoRemVerdict(e) ==
  LET x == Decode(e.x)  y == Decode(e.y)  m == EffMode(e)
      ex == QuoRemExact(x, y, m)
      v1 == ResultVerdict(ex[1], e, e.r, e.pl, m)
      v2 == ResultVerdict(ex[2], e, e.r2, e.pl2, m)
  IN IF v1 \notin OkSet THEN v1 \o ":quo" ELSE IF v2 \notin OkSet THEN v2 \o ":rem"
     ELSE IF v1 = "ok+" \/ v2 = "ok+" THEN "ok+" ELSE "ok"


B2S(b) == IF b THEN "ok" ELSE "reject"
FlipSign(b) == <<(b[1] + 128) % 256>> \o SubSeq(b, 2, 16)
ClearSign(b) == <<b[1] % 128>> \o SubSeq(b, 2, 16)
Panicked(e) == Has(e, "panic")

\* results that must be a given value (ResEq), or a propagated NaN operand
ValueVerdict(exp, e, rb) ==
  LET r == Decode(rb) IN
  IF exp.k = "nan" THEN B2S(r.k = "nan" /\ (exp.src = "x" => rb = e.x) /\ (exp.src = "y" => rb = e.y)
                               /\ (exp.src = "any" => (rb = e.x \/ rb = e.y)))
  ELSE B2S(ResEq(exp, r))

CmpVerdict(e) ==
  LET x == Decode(e.x)  y == Decode(e.y)
      s == IF e.op = "Cmp" THEN CmpSem(x, y) ELSE CmpAbsSem(x, y)
  IN B2S(e.lt = s[1] /\ e.eq = s[2] /\ e.gt = s[3] /\ e.le = (s[1] \/ s[2]) /\ e.ge = (s[3] \/ s[2]))

QuantVerdict(e) ==
  LET x == Decode(e.x)
      s == CASE e.op = "Round" -> RoundSem(x, e.dp, EffMode(e))
             [] e.op = "Ceil" -> CeilSem(x, e.dp)
             [] e.op = "Floor" -> FloorSem(x, e.dp)
             [] e.op = "PkgRound" -> RoundSem(x, 0, RNA)
             [] e.op = "PkgTrunc" -> RoundSem(x, 0, RTZ)
             [] e.op = "PkgCeil" -> CeilSem(x, 0)
             [] e.op = "PkgFloor" -> FloorSem(x, 0)
      r == Decode(e.r)
      dp == IF Has(e, "dp") THEN e.dp ELSE 0
  IN IF s.t = "same" THEN B2S(e.r = e.x /\ e.rr = e.x)                      \* NaN / Inf pass through bit for bit
     ELSE IF ~ResEq(s.v, r) THEN "reject"
     ELSE IF ~ResEq(r, Decode(e.rr)) THEN "reject:idempotence"
     ELSE IF r.neg # x.neg THEN "reject:sign"
     ELSE IF r.k = "fin" /\ ~WithinQuantum(x, r, dp) THEN "reject:quantum"
     ELSE IF CmpMag(r.c, r.q, x.c, x.q) # 0 \/ r.k # "fin" THEN "ok+" ELSE "ok"

ScaleVerdict(e) ==
  CASE e.op = "New"   -> Agrees(NewExact([neg |-> e.sig.neg, l |-> e.sig.l], e.exp), Decode(e.r), mode)
    [] e.op = "Ldexp" -> LET x == Decode(e.x) IN
                         IF x.k = "nan" THEN B2S(Decode(e.r).k = "nan")
                         ELSE Agrees(LdexpExact(x, e.exp), Decode(e.r), mode)
    [] e.op = "Frexp" -> LET x == Decode(e.x) IN
                         IF x.k # "fin" \/ IsZero(x) THEN B2S(e.r = e.x /\ e.e = 0 /\ e.back = e.x)
                         ELSE B2S(FrexpOK(x, Decode(e.r), e.e) /\ ResEq(Decode(e.back), x))

CanonVerdict(e) ==
  LET x == Decode(e.x)  c == CanonV(x)  r == Decode(e.r) IN
  IF e.r # Encode(c) THEN "reject"
  ELSE IF e.rr # e.r THEN "reject:idempotence"
  ELSE IF x.k = "fin" /\ ~IsCanon(x, r) THEN "specfault:canon"
  ELSE "ok"

BinaryVerdict(e) ==
  CASE e.op = "MarshalBinary" -> B2S(e.err = "" /\ e.bs = e.x)                   \* the 16 bytes are the BID words, big-endian
    [] e.op = "UnmarshalBinary" -> IF Len(e.bs) = 16 THEN B2S(e.err = "" /\ e.r = e.bs)
                                   ELSE B2S(e.err # "" /\ e.r = e.prev)          \* rejected, receiver untouched

MiscVerdict(e) ==
  LET x == Decode(e.x) IN
  CASE e.op = "Neg" -> B2S(e.r = FlipSign(e.x))
    [] e.op = "Abs" -> B2S(e.r = ClearSign(e.x))
    [] e.op \in {"Min", "Max"} -> ValueVerdict(MinMaxSem(x, Decode(e.y), e.op = "Max"), e, e.r)
    [] e.op = "Equal" -> B2S(e.b = EqualSem(x, Decode(e.y)))
    [] e.op = "Compare" -> B2S(e.n = CompareSem(x, Decode(e.y)))
    [] e.op = "IsZero" -> B2S(e.b = IsZero(x))
    [] e.op = "IsNaN" -> B2S(e.b = IsNaN(x))
    [] e.op = "IsInf" -> B2S(e.b = (IsInf(x) /\ (e.sgn = 0 \/ (e.sgn > 0) = ~x.neg)))
    [] e.op = "Signbit" -> B2S(e.b = x.neg)
    [] e.op = "Sign" -> IF IsNaN(x) THEN B2S(Panicked(e)) ELSE B2S(~Panicked(e) /\ e.n = SignSem(x))

Zero16 == [i \in 1..16 |-> 0]
\* C05: Parse / MustParse / UnmarshalText / fmt.Sscan
ParseVerdict(e) ==
  LET ps == ParseSem(e.s, mode)
      r == Decode(e.r)
      must == e.via = "MustParse"
      agrees == IF ps.val.k = "nan" THEN (IF r.k = "nan" THEN "ok" ELSE "reject") ELSE Agrees(ps.ex, r, mode)
      untouched == IF Has(e, "prev") THEN e.prev ELSE Zero16       \* the receiver of UnmarshalText / Scan before the call
  IN IF ps.err = "syntax" THEN (IF must THEN B2S(Panicked(e))
                               ELSE IF e.err # "syntax" THEN "reject:err"
                               ELSE IF e.via \in {"UnmarshalText", "Sscan"} /\ e.r # untouched THEN "reject:receiver-written-on-error"
                               ELSE "ok")
     ELSE IF ps.err = "nan-signed" THEN                          \* a signed NaN literal: the statement leaves it open
          B2S((must /\ Panicked(e)) \/ e.err = "syntax" \/ (e.err = "none" /\ r.k = "nan"))
     ELSE IF must /\ Panicked(e) THEN B2S(ps.err = "range")      \* MustParse cannot return the range error
     ELSE IF Panicked(e) THEN "reject:panic"
     ELSE IF ~must /\ e.err # ps.err THEN "reject:err"
     \* UnmarshalText and Scan report the range error but have no result to return: the receiver may hold
     \* the infinity or be left as it was (the driver starts from the zero value)
     ELSE IF ps.err = "range" /\ e.via \in {"UnmarshalText", "Sscan"} /\ e.r = untouched THEN "ok"
     ELSE agrees

\* C05: the stream scanner (fmt.Fscan with k Decimal arguments on one input; fmt.Sscanf with one verb)
\* one scanned value against its specified outcome: "ok" / "ok+" / "reject:..."
ScanValueVerdict(o, rb) ==
  LET r == Decode(rb) IN
  IF o.val.k = "nan" THEN (IF r.k = "nan" THEN "ok" ELSE "reject:scan-value") ELSE Agrees(o.ex, r, mode)
ScanStreamVerdict(e) ==
  LET io == Has(e, "failat")                                           \* the reader fails with an I/O error after e.failat bytes
      sm == IF io THEN ScanManyIO(SubSeq(e.s, 1, e.failat), 1, e.k, mode) ELSE ScanMany(e.s, 1, e.k, mode)
      outs == sm.outs
      nOut == Len(outs)
      open == SelectInSeq(outs, LAMBDA o : o.err = "nan-signed")       \* a signed NaN: accepted or refused, the statement leaves it open
      nStrict == IF open = 0 THEN nOut ELSE open - 1                    \* outcomes checked strictly
      last == outs[nOut]
      failed == last.err \notin {"none", "nan-signed"}
      nStored == IF failed THEN nOut - 1 ELSE nOut
      vs == [i \in 1..nStrict |->
               IF outs[i].err = "none" THEN ScanValueVerdict(outs[i], e.rs[i])
               ELSE IF outs[i].err = "range" /\ e.rs[i] # e.prev THEN ScanValueVerdict(outs[i], e.rs[i])   \* the infinity may be stored
               ELSE IF e.rs[i] = e.prev THEN "ok" ELSE "reject:scan-receiver-written-on-error"]
      firstBad == SelectInSeq(vs, LAMBDA v : v \notin OkSet)
  IN IF Panicked(e) THEN "reject:panic"
     ELSE IF firstBad # 0 THEN vs[firstBad]
     ELSE IF open # 0 THEN (IF e.n >= open - 1 THEN "ok" ELSE "reject:scan-count")
     ELSE IF e.n # nStored THEN "reject:scan-count"
     ELSE IF e.err # (IF failed THEN last.err ELSE "none") THEN "reject:scan-err"
     ELSE IF \E i \in (nOut + 1)..e.k : e.rs[i] # e.prev THEN "reject:scan-later-receiver-written"
     ELSE IF ~io /\ e.rem # Len(e.s) - (sm.p - 1) THEN "reject:scan-consumed"
     ELSE IF \E i \in 1..Len(vs) : vs[i] = "ok+" THEN "ok+" ELSE "ok"
\* fmt.Sscanf(s, "%<verb>", &d): the seven verbs read a value like Fscan does, every other verb is refused
ScanVerbVerdict(e) ==
  IF Panicked(e) THEN "reject:panic"
  ELSE IF e.verb \notin {101, 69, 102, 70, 103, 71, 118} THEN B2S(e.n = 0 /\ e.err # "none" /\ e.r = Zero16)
  ELSE IF \E i \in 1..Len(e.s) : e.s[i] \in {10, 13} THEN "ok"                \* Sscanf treats newlines its own way: totality only
  ELSE LET o == ScanOne(e.s, 1, mode) IN
       IF o.err = "nan-signed" THEN "ok"
       ELSE IF o.err = "none" THEN (IF e.n # 1 \/ e.err # "none" THEN "reject:scan-err" ELSE ScanValueVerdict(o, e.r))
       ELSE IF e.n # 0 \/ e.err = "none" THEN "reject:scan-err"
       ELSE IF o.err \in {"syntax", "range"} /\ e.err # o.err THEN "reject:scan-errclass"
       ELSE IF e.r = Zero16 THEN "ok"
       ELSE IF o.err = "range" THEN ScanValueVerdict(o, e.r) ELSE "reject:scan-receiver-written-on-error"

\* C06: default text forms and the way back
StringVerdict(e) ==
  LET x == Decode(e.x)
      s == StringSem(x)
      same(b) == LET r == Decode(b) IN IF x.k = "nan" THEN r.k = "nan" ELSE ResEq(x, r)
      back == ParseSem(s, RNE)
  IN IF e.s # s THEN "reject:String"
     ELSE IF e.mt # s THEN "reject:MarshalText"
     ELSE IF e.v # s THEN "reject:%v"
     ELSE IF e.g # s THEN "reject:g"
     ELSE IF e.e1 # ShortestE(x) THEN "reject:e"
     ELSE IF e.f1 # ShortestF(x) THEN "reject:f"
     ELSE IF ~(e.bperr = "none" /\ same(e.bp)) THEN "reject:Parse-back"
     ELSE IF ~(e.buerr = "none" /\ same(e.bu)) THEN "reject:UnmarshalText-back"
     ELSE IF ~(e.bserr = "none" /\ same(e.bs)) THEN "reject:Sscan-back"
     ELSE IF Has(e, "bpe") /\ ~(e.bpeerr = "none" /\ same(e.bpe) /\ e.bueerr = "none" /\ same(e.bue) /\ e.bseerr = "none" /\ same(e.bse)) THEN "reject:e-text-back"
     ELSE IF Has(e, "bpf") /\ ~(e.bpferr = "none" /\ same(e.bpf) /\ e.buferr = "none" /\ same(e.buf) /\ e.bsferr = "none" /\ same(e.bsf)) THEN "reject:f-text-back"
     ELSE IF ~(back.err = "none" /\ (IF x.k = "nan" THEN back.val.k = "nan" ELSE ResEq(back.val, x))) THEN "specfault:roundtrip"
     ELSE "ok"

\* C13: JSON
SameVal(x, b) == LET r == Decode(b) IN IF x.k = "nan" THEN r.k = "nan" ELSE ResEq(x, r)
JsonMarshalVerdict(e) ==
  LET x == Decode(e.x) IN
  IF x.k # "fin" THEN B2S(e.mjerr = "unsupported" /\ e.docerr = "unsupported")     \* *json.UnsupportedValueError
  ELSE IF e.mjerr # "none" THEN "reject:MarshalJSON-error"
  ELSE IF ~JsonTextOK(x, e.mj) THEN "reject:MarshalJSON-text"
  ELSE IF ~(e.ujerr = "none" /\ SameVal(x, e.uj)) THEN "reject:UnmarshalJSON-back"
  ELSE IF ~(e.docerr = "none" /\ SameVal(x, e.d1) /\ SameVal(x, e.d2) /\ SameVal(x, e.d3) /\ SameVal(x, e.d4)) THEN "reject:encoding/json"
  ELSE "ok"
\* direct UnmarshalJSON of arbitrary bytes; kind of input decided here, not by the driver
JsonUnmarshalVerdict(e) ==
  IF e.s = cNULL THEN B2S(e.err = "none" /\ e.r = e.prev)                          \* null leaves the receiver untouched
  \* empty input (no JSON value at all; never produced by encoding/json): the repository's own test pins
  \* "no error, receiver untouched"; no value is produced, so either that or an error is accepted
  ELSE IF e.s = << >> THEN B2S(e.r = e.prev)
  ELSE IF IsJsonNumber(e.s) THEN
       LET ps == ParseSem(e.s, mode) IN
       IF ps.err = "range" THEN B2S(e.err # "none" /\ e.r = e.prev)
       ELSE IF e.err # "none" THEN "reject:number-refused"
       ELSE Agrees(ps.ex, Decode(e.r), mode)
  ELSE \* not a JSON number: an error, or (direct call only) the value Parse gives for that text, never another one;
       \* the digit separator '_' is an extension of Parse's literal syntax that JSON does not have: always an error
       IF e.err # "none" THEN B2S(e.r = e.prev)
       ELSE IF \E i \in 1..Len(e.s) : e.s[i] = 95 THEN "reject:separator-accepted-in-JSON"
       ELSE LET ps == ParseSem(e.s, mode) IN
            IF ps.err = "none" /\ ps.val.k = "fin" /\ Agrees(ps.ex, Decode(e.r), mode) \in OkSet THEN "ok"
            ELSE "reject:non-number-accepted"
\* a document {"A":t,"B":[t,t],"C":{"k":t},"D":t} decoded by encoding/json
JsonDocVerdict(e) ==
  IF IsJsonNumber(e.s) THEN
       LET ps == ParseSem(e.s, mode) IN
       IF ps.err = "range" THEN B2S(e.err # "none")
       ELSE IF e.err # "none" THEN "reject:number-refused"
       ELSE LET a == Agrees(ps.ex, Decode(e.d1), mode) IN
            IF a \notin OkSet THEN a
            ELSE B2S(e.d2 = e.d1 /\ e.d3 = e.d1 /\ e.d4 = e.d1 /\ e.d5 = e.d1)
  ELSE IF e.s = cNULL THEN B2S(e.err = "none" /\ e.d1 = e.prev)
  ELSE B2S(e.err # "none")                                                          \* another JSON type: an error

\* C14
ComposeVerdict(e) ==
  LET cs == ComposeSem(e.form, e.neg, e.sig, e.exp) IN
  IF cs.err # "none" THEN B2S(e.err # "none")                                      \* an error, never a rounded value
  ELSE IF e.err # "none" THEN "reject:refused"
  ELSE IF cs.v.k = "nan" THEN B2S(Decode(e.r).k = "nan")
  ELSE B2S(ResEq(cs.v, Decode(e.r)))
DecomposeVerdict(e) ==
  LET x == Decode(e.x) IN
  IF ~DecomposeOK(x, e.form, e.neg, e.sig, e.exp) THEN "reject:parts"
  ELSE IF ~(e.backerr = "none" /\ SameVal(x, e.back)) THEN "reject:Compose-back"
  ELSE IF ~e.bufok THEN "reject:buffer"
  ELSE "ok"

\* C10
\* near the bottom of the range a relative bound cannot hold (the format's spacing there is 10^Emin): allow one quantum
WithinMinQuantum(r, n, d) ==
  r.q <= Emin + PDigits /\
  LET a == MulPow10(Mul(r.c, d), r.q - Emin)       \* r * d / 10^Emin
      b == n                                        \* would need n * 10^-Emin: compare a * 10^Emin-scaled instead
  IN Le(AbsDiff(MulPow10(a, 0), MulPow10(n, 0 - Emin)), d)
\* when may a conversion that is only required to be accurate to 2 parts in 10^33 return a zero for the positive magnitude
\* n/d?  Below the flush threshold 10^(Emin-1) always; up to half the smallest subnormal under the nearest modes; below one
\* smallest subnormal under the modes that round this sign toward zero (0.1 % slack for the permitted error)
ZeroAllowed(neg, n, d, m) ==
  \/ CmpVC(MulSmall(n, 1000), d, 0, FromInt(1001), Emin - 1) < 0
  \/ (m \in {RNE, RNA} /\ CmpVC(MulSmall(n, 2000), d, 0, FromInt(1001), Emin) <= 0)
  \/ ((m = RTZ \/ (m = RNI /\ ~neg) \/ (m = RPI /\ neg)) /\ CmpVC(MulSmall(n, 1000), d, 0, FromInt(1001), Emin) < 0)
IntVerdict(e) ==
  LET x == Decode(e.x) IN
  CASE e.op = "FromInt64" -> LET r == Decode(e.r) IN
          B2S(r.k = "fin" /\ CmpMag(r.c, r.q, e.v.l, 0) = 0 /\ r.neg = (e.v.neg /\ e.v.l # << >>))
    [] e.op = "FromInt" -> IF e.v.l = << >> THEN B2S(ResEq(Decode(e.r), ZeroV(FALSE)))
                           ELSE IF NumDigits(e.v.l) > Emax + 37 THEN B2S(ResEq(Decode(e.r), InfV(e.v.neg)))   \* at least 10^(Emax+37) > 10 * MaxFinite: Inf in every mode (and no long division of a 100 000-digit integer)
                           ELSE Agrees(Rnd(e.v.neg, e.v.l, One, 0), Decode(e.r), mode)
    [] e.op = "Int" -> IF x.k # "fin" THEN B2S(Panicked(e))
                       ELSE LET t == TruncMag(x) IN B2S(~Panicked(e) /\ e.z.l = t /\ (t # << >> => e.z.neg = x.neg))
    [] e.op = "ToInt" -> IF x.k = "nan" THEN B2S(Panicked(e))
                         ELSE LET s == ToIntSem(x, e.ty) IN
                              B2S(~Panicked(e) /\ e.n.l = s[2] /\ (s[2] # << >> => e.n.neg = s[1]) /\ e.ok = s[3])
    [] e.op = "Rat" -> IF x.k # "fin" THEN B2S(Panicked(e))
                       ELSE IF Panicked(e) THEN "reject:panic"
                       ELSE IF ~RatOK(x, e.num, e.den) THEN "reject"
                       ELSE LET fr == Decode(e.fr) IN B2S(fr.k = "fin" /\ CmpVal(fr, x) = 0)
    [] e.op = "FromRat" ->
         LET r == Decode(e.r) IN
         IF e.num.l = << >> THEN B2S(IsZero(r))
         ELSE IF NumDigits(e.num.l) <= 34 /\ NumDigits(e.den.l) <= 34 THEN Agrees(Rnd(e.num.neg, e.num.l, e.den.l, 0), r, mode)
         ELSE IF r.k = "nan" \/ r.neg # e.num.neg THEN "reject"
         ELSE IF r.k = "inf" THEN B2S(CmpVC(MulSmall(e.num.l, 1000), e.den.l, 0, MulSmall(Cmax, 999), Emax) > 0)
         ELSE IF IsZero(r) THEN B2S(ZeroAllowed(r.neg, e.num.l, e.den.l, mode))
         ELSE B2S(RelErrLe(r.c, r.q, e.num.l, e.den.l, 0, <<2>>, Pow10(33)) \/ WithinMinQuantum(r, e.num.l, e.den.l))

\* C09
SameFloat(f, g) == f.cls = g.cls /\ (f.cls = "nan" \/ f.neg = g.neg) /\ (f.cls # "fin" \/ CmpVC(f.m, BinRat(One, 0 - f.e)[1], 0, << >>, 0) = 1)
FloatEq(f, g) ==   \* same binary value
  /\ f.cls = g.cls /\ (f.cls = "nan" \/ f.neg = g.neg)
  /\ (f.cls = "fin" => LET a == BinRat(f.m, f.e)  b == BinRat(g.m, g.e) IN Mul(a[1], b[2]) = Mul(b[1], a[2]))
FloatVerdict(e) ==
  CASE e.op \in {"FromFloat64", "FromFloat32"} ->
         LET r == Decode(e.r) IN
         IF e.f.cls = "nan" THEN B2S(r.k = "nan")
         ELSE IF e.f.cls = "inf" THEN B2S(ResEq(r, InfV(e.f.neg)) /\ FloatEq(e.f, e.bf))
         ELSE IF e.f.cls = "zero" THEN B2S(ResEq(r, ZeroV(e.f.neg)) /\ FloatEq(e.f, e.bf))
         ELSE LET br == BinRat(e.f.m, e.f.e)
                  a == Agrees(Rnd(e.f.neg, br[1], br[2], 0), r, mode)
              IN IF a \notin OkSet THEN a ELSE IF ~FloatEq(e.f, e.bf) THEN "reject:identity" ELSE a
    [] e.op \in {"Float64", "Float32"} ->
         LET x == Decode(e.x)
             p == IF e.op = "Float64" THEN F64P ELSE F32P
             emin == IF e.op = "Float64" THEN F64Emin ELSE F32Emin
             top == IF e.op = "Float64" THEN F64Top ELSE F32Top
         IN IF x.k = "nan" THEN B2S(e.f.cls = "nan")
            ELSE IF x.k = "inf" THEN B2S(e.f.cls = "inf" /\ e.f.neg = x.neg)
            ELSE IF IsZero(x) THEN B2S(e.f.cls = "zero" /\ e.f.neg = x.neg)
            ELSE B2S(FloatAllowed(x, e.f, p, emin, top))
    [] e.op = "Float" ->
         LET x == Decode(e.x) IN
         IF x.k = "nan" THEN B2S(Panicked(e))
         ELSE IF Panicked(e) THEN "reject:panic"
         ELSE IF x.k = "inf" THEN B2S(e.f.cls = "inf" /\ e.f.neg = x.neg)
         ELSE IF IsZero(x) THEN B2S(e.f.cls = "zero" /\ e.f.neg = x.neg)
         ELSE B2S(BigFloatOK(x, e.f))
    [] e.op = "FromFloat" ->
         LET r == Decode(e.r) IN
         IF e.f.cls = "inf" THEN B2S(ResEq(r, InfV(e.f.neg)))
         ELSE IF e.f.cls = "zero" THEN B2S(ResEq(r, ZeroV(e.f.neg)))
         ELSE LET br == BinRat(e.f.m, e.f.e) IN
              IF r.k = "nan" \/ r.neg # e.f.neg THEN "reject"
              ELSE IF r.k = "inf" THEN B2S(CmpVC(MulSmall(br[1], 1000), br[2], 0, MulSmall(Cmax, 999), Emax) > 0)
              ELSE IF IsZero(r) THEN B2S(ZeroAllowed(r.neg, br[1], br[2], mode))
              ELSE B2S(RelErrLe(r.c, r.q, br[1], br[2], 0, <<2>>, Pow10(33)) \/ WithinMinQuantum(r, br[1], br[2]))

\* numeric oracle (enclosures): see Encl.tla
NumericVerdict(op, x, r) == EnclVerdict(op, x, r)


\* C15 / C16 / C17: unary elementary functions
NanResultOK(exp, e) ==      \* exp is a NaN descriptor value
  LET r == Decode(e.r) IN
  /\ r.k = "nan"
  /\ (exp.src = "x" => e.r = e.x)
  /\ (exp.src = "y" => e.r = e.y)
  /\ (exp.src = "new" => e.pl = exp.pl)
UnaryVerdict(e) ==
  LET x == Decode(e.x)
      sp == UnarySpecial(e.op, x)
      r == Decode(e.r)
  IN IF sp.t = "val" THEN
        (IF sp.v.k = "nan" THEN B2S(NanResultOK(sp.v, e)) ELSE B2S(ResEq(sp.v, r)))
     ELSE IF r.k = "nan" THEN "reject:nan-from-finite"
     \* the accuracy statements (C16, C17) are about the default nearest-even mode; under another DefaultRoundingMode
     \* only totality, the special cases above and the absence of NaN are required of these functions
     ELSE IF mode # RNE THEN "ok"
     ELSE IF e.op = "Sqrt" THEN B2S(~r.neg /\ RootOK(x, r, 2))
     ELSE IF e.op = "Cbrt" THEN B2S(r.neg = x.neg /\ RootOK(x, r, 3))
     ELSE NumericVerdict(e.op, x, r)

\* C18
PowVerdict(e) ==
  LET x == Decode(e.x)  y == Decode(e.y)  m == EffMode(e)
      ld == PowLadder(x, y, m)
      r == Decode(e.r)
  IN IF ld.t = "val" /\ ld.v.k = "nan" THEN B2S(NanResultOK(ld.v, e))
     ELSE IF ld.t \in {"val", "rnd"} THEN Agrees(ld, r, m)
     ELSE IF r.k = "nan" THEN "reject:nan-from-finite"
     ELSE IF r.neg # ld.neg THEN "reject:sign"                       \* (-1)^y for negative bases, also on Inf and zero
     ELSE IF ~Has(e, "w") THEN "undecided:no-witness"
     ELSE EnclPowVerdictW(x, y, r, m, [neg |-> e.w.neg, l |-> e.w.l, e |-> e.w.e], ld.neg)

\* documented panics only: anything else that panicked is rejected before its own verdict is consulted
PanicAllowed(e) ==
  \/ e.op \in {"Sign", "Payload", "Int", "Rat", "Float", "ToInt"}       \* each verdict checks the documented condition
  \/ (e.op = "Parse" /\ e.via = "MustParse")

\* C07 formatting (Fmt.tla).  Specs outside the flags/width/precision/verb grammar and very large precisions or widths
\* are checked for totality only (C20).
FormatVerdict(e) ==
  CASE e.op = "Sprintf" ->
         LET sp == SpecParse(e.spec) IN
         IF Has(e, "appanic") THEN "reject:Append-panic"                      \* whatever the spec string: no format makes Append panic (C20)
         ELSE IF ~sp.ok \/ sp.prec > 200 \/ sp.width > 2000 THEN "ok"
         ELSE LET want == FormatSem(Decode(e.x), sp.verb, sp.prec, sp.width, sp.fl) IN
              IF Has(e, "fs") /\ e.fs # want THEN "specfault:toolchain-float64-differs"      \* FormatSem itself is tied to the installed fmt
              ELSE IF e.s # want THEN "reject:Sprintf"
              ELSE IF Has(e, "appanic") THEN "reject:Append-panic"
              ELSE IF e.ap # e.s THEN "reject:Append(spec)"
              ELSE IF Has(e, "ap2") /\ (e.ap2 # <<112, 114, 101>> \o e.s \/ e.ap3 # <<112, 114, 101>> \o e.s) THEN "reject:Append(spec)-after-prefix"
              ELSE IF Has(e, "ap4") /\ e.ap4 # e.s THEN "reject:Append(spec)-small-buffer"
              ELSE "ok"
    [] e.op = "Format" ->
         IF e.verb \notin {cE, cBigE, cF, cG, cBigG} \/ e.prec > 200 \/ e.prec < 0 - 1 THEN "ok"
         ELSE LET want == PlainFormatSem(Decode(e.x), e.verb, e.prec) IN
              IF e.s # want THEN "reject:Format"
              ELSE IF e.ap # <<112, 114, 101>> \o want THEN "reject:Append"
              ELSE "ok"
    [] OTHER -> "ok"

Str2Bytes(name) == CASE name = "ToNearestEven" -> <<84,111,78,101,97,114,101,115,116,69,118,101,110>>
                     [] name = "ToNearestAway" -> <<84,111,78,101,97,114,101,115,116,65,119,97,121>>
                     [] name = "ToZero" -> <<84,111,90,101,114,111>>
                     [] name = "AwayFromZero" -> <<65,119,97,121,70,114,111,109,90,101,114,111>>
                     [] name = "ToNegativeInf" -> <<84,111,78,101,103,97,116,105,118,101,73,110,102>>
                     [] name = "ToPositiveInf" -> <<84,111,80,111,115,105,116,105,118,101,73,110,102>>
ModeName(m) == CASE m = 0 -> Str2Bytes("ToNearestEven") [] m = 1 -> Str2Bytes("ToNearestAway") [] m = 2 -> Str2Bytes("ToZero")
                 [] m = 3 -> Str2Bytes("AwayFromZero") [] m = 4 -> Str2Bytes("ToNegativeInf") [] m = 5 -> Str2Bytes("ToPositiveInf")
                 [] OTHER -> <<82,111,117,110,100,105,110,103,77,111,100,101,40>> \o Chars(ToDigits(FromInt(m))) \o <<41>>

\* C20 pieces without a value semantics of their own: totality only
PayloadVerdict(e) == LET x == Decode(e.x) IN IF IsNaN(x) THEN B2S(~Panicked(e)) ELSE B2S(Panicked(e))     \* documented panic
MiscValueVerdict(e) ==
  CASE e.f = "NaN" -> B2S(Decode(e.r).k = "nan")
    [] e.f = "Inf" -> B2S(Decode(e.r) = InfV(e.sgn < 0))
    [] e.f = "ModeString" -> B2S(e.s = ModeName(e.m))
    [] e.f \in {"E", "Pi", "Phi"} -> ConstVerdict(e.f, Decode(e.r))
    [] OTHER -> "ok"

RawVerdict(e) ==
  IF Has(e, "timeout") THEN "reject:no-termination"                       \* the driver's watchdog: the call had not returned after two minutes
  ELSE IF ~Frame(e) THEN "reject:frame-mode"
  ELSE IF Panicked(e) /\ ~PanicAllowed(e) THEN "reject:panic"
  ELSE IF Has(e, "det") /\ ~e.det THEN "reject:nondeterministic"
  ELSE IF Has(e, "seqeq") /\ ~e.seqeq THEN "reject:concurrent-result-differs"
  ELSE IF Has(e, "inmod") /\ e.inmod THEN "reject:input-modified"
  ELSE IF Has(e, "alias") /\ e.alias THEN "reject:result-aliases-shared-storage"   \* a returned slice, overwritten by the caller, changed a later result
  ELSE IF Has(e, "bok") /\ ~e.bok THEN "reject:behaviour-mismatch"        \* a replayed TLC behaviour: register differs from the expected value
  ELSE IF Has(e, "m") /\ e.m > 5 /\ e.op # "SetMode" THEN "ok"          \* a mode outside the six named ones: totality only
  ELSE CASE e.op = "SetMode" -> "ok"
         [] e.op = "Payload" -> PayloadVerdict(e)
         [] e.op \in {"Format", "Sprintf"} -> FormatVerdict(e)
         [] e.op = "Scan" -> ScanVerbVerdict(e)
         [] e.op = "ScanStream" -> ScanStreamVerdict(e)
         [] e.op = "Misc" -> MiscValueVerdict(e)
         [] e.op \in {"Add", "Sub", "Mul", "Quo"} -> Bin2Verdict(e)
         [] e.op = "QuoRem" -> QuoRemVerdict(e)
         [] e.op \in {"Cmp", "CmpAbs"} -> CmpVerdict(e)
         [] e.op \in {"Round", "Ceil", "Floor", "PkgRound", "PkgTrunc", "PkgCeil", "PkgFloor"} -> QuantVerdict(e)
         [] e.op \in {"New", "Ldexp", "Frexp"} -> ScaleVerdict(e)
         [] e.op = "Canonical" -> CanonVerdict(e)
         [] e.op = "Parse" -> ParseVerdict(e)
         [] e.op = "MarshalJSON" -> JsonMarshalVerdict(e)
         [] e.op = "UnmarshalJSON" -> JsonUnmarshalVerdict(e)
         [] e.op = "UnmarshalDoc" -> JsonDocVerdict(e)
         [] e.op = "Compose" -> ComposeVerdict(e)
         [] e.op \in {"Exp", "Exp2", "Exp10", "Expm1", "Log", "Log2", "Log10", "Log1p", "Sqrt", "Cbrt"} -> UnaryVerdict(e)
         [] e.op = "Pow" -> PowVerdict(e)
         [] e.op \in {"FromInt64", "FromInt", "Int", "ToInt", "Rat", "FromRat"} -> IntVerdict(e)
         [] e.op \in {"FromFloat64", "FromFloat32", "Float64", "Float32", "Float", "FromFloat"} -> FloatVerdict(e)
         [] e.op = "Decompose" -> DecomposeVerdict(e)
         [] e.op = "String" -> StringVerdict(e)
         [] e.op \in {"MarshalBinary", "UnmarshalBinary"} -> BinaryVerdict(e)
         [] e.op \in {"Neg", "Abs", "Min", "Max", "Equal", "Compare", "IsZero", "IsNaN", "IsInf", "Signbit", "Sign"} -> MiscVerdict(e)
         [] OTHER -> "specfault:unknown-op"

(***************************************************************************)
(* Deviations: genuine defects of the library that are recorded but not    *)
(* repaired (known_findings.json).  Each names the input region AND the    *)
(* exact wrong symptom; a step that is rejected and matches one is         *)
(* reported as kf:<id>, any other wrong result in the same region is still *)
(* a rejection.                                                            *)
(***************************************************************************)
\* KF1: Expm1(-0) returns +0 (C16 / C15 ask for -0); pinned by the repository's testdata/TestExpm1/simple.txt
KF_Expm1NegZero(e) ==
  e.op = "Expm1" /\ Has(e, "x") /\ Has(e, "r") /\
  LET x == Decode(e.x)  r == Decode(e.r) IN IsZero(x) /\ x.neg /\ IsZero(r) /\ ~r.neg
\* |c*10^q - n/d*10^e| <= 10^b
AbsErrLe(c, q, n, d, e, b) ==
  LET lo == Min2(Min2(q, e), b)
  IN Le(AbsDiff(MulPow10(Mul(c, d), q - lo), MulPow10(n, e - lo)), MulPow10(d, b - lo))

\* KF2: Log / Log2 / Log10 of x in (1 - 1e-20, 1): the result is computed as ln(m/9.9) + ln 9.9 - ln 10 and loses
\* its leading digits to cancellation; symptom: a non-positive finite result whose ABSOLUTE error is below 1e-47
\* (relative errors up to 1e10 ulp).  ln(1 - delta) = -delta (1 + O(delta)).
KF_LogBelowOne(e) ==
  e.op \in {"Log", "Log2", "Log10"} /\ Has(e, "x") /\ Has(e, "r") /\
  LET x == Decode(e.x)  r == Decode(e.r) IN
  /\ x.k = "fin" /\ ~x.neg /\ x.c # << >> /\ x.q < 0 /\ x.q >= 0 - 40
  /\ Lt(x.c, Pow10(0 - x.q))                                             \* x < 1
  /\ LET delta == Sub(Pow10(0 - x.q), x.c) IN                             \* 1 - x = delta * 10^q
     /\ NumDigits(delta) + x.q <= 0 - 20
     /\ r.k = "fin" /\ (r.neg \/ IsZero(r))
     /\ LET en == Add(MulPow10(MulSmall(delta, 2), 0 - x.q), Mul(delta, delta))      \* -ln(1-d) = d + d^2/2 + O(d^3): (2 d 10^-q + d^2) / 2 * 10^(2q)
        IN IF e.op = "Log" THEN AbsErrLe(r.c, r.q, en, <<2>>, 2 * x.q, 0 - 47)
           ELSE AbsErrLe(r.c, r.q, Mul(en, S), MulSmall(IF e.op = "Log2" THEN LN2 ELSE LN10, 2), 2 * x.q, 0 - 47)

\* KF3: Expm1 of a negative argument below 1e-23 in magnitude goes through 1/(1+s) - 1 and loses digits or
\* returns zero (the repository's vectors testdata/TestExpm1/edge.txt pin results such as Expm1(-4.29e-3079) = 0);
\* symptom: a result between the argument and zero
KF_Expm1TinyNeg(e) ==
  e.op = "Expm1" /\ Has(e, "x") /\ Has(e, "r") /\
  LET x == Decode(e.x)  r == Decode(e.r) IN
  /\ x.k = "fin" /\ x.neg /\ x.c # << >> /\ NumDigits(x.c) + x.q <= 0 - 21
  /\ r.k = "fin" /\ (IsZero(r) \/ (r.neg /\ CmpMag(r.c, r.q, x.c, x.q) <= 0))

\* KF4: Log1p of arguments below about 1e-3600 in magnitude returns a signed zero or a signed infinity (pinned by
\* testdata/TestLog1p/edge.txt, e.g. Log1p(4.29e-6167) = +Inf); symptom: exactly those values, sign of the argument
KF_Log1pTiny(e) ==
  e.op = "Log1p" /\ Has(e, "x") /\ Has(e, "r") /\
  LET x == Decode(e.x)  r == Decode(e.r) IN
  /\ x.k = "fin" /\ x.c # << >> /\ NumDigits(x.c) + x.q <= 0 - 3590
  /\ (IsZero(r) \/ r.k = "inf") /\ r.neg = x.neg

KnownFinding(e) == IF KF_Expm1NegZero(e) THEN "KF1"
                   ELSE IF KF_LogBelowOne(e) THEN "KF2"
                   ELSE IF KF_Expm1TinyNeg(e) THEN "KF3"
                   ELSE IF KF_Log1pTiny(e) THEN "KF4" ELSE ""

Verdict(e) == LET v == RawVerdict(e) IN
              IF v \in OkSet THEN v
              ELSE LET k == KnownFinding(e) IN IF k = "" THEN v ELSE "kf:" \o k

Init == l = 1 /\ mode = 0 /\ bad = 0
Next == /\ l <= Len(Events)
        /\ LET e == Events[l]
               v == Verdict(e)
           IN /\ (IF v = "ok" THEN TRUE ELSE PrintT(<<"VERDICT", l, e.i, e.op, v>>))
              /\ mode' = IF e.op = "SetMode" THEN e.m ELSE mode
              /\ bad' = IF v \in OkSet THEN bad ELSE bad + 1
        /\ l' = l + 1
Spec == Init /\ [][Next]_vars

TraceAccepted == /\ TLCGet("stats").diameter - 1 = Len(Events)
                 /\ PrintT(<<"CONSUMED", Len(Events)>>)
=============================================================================
