-------------------------------- MODULE Trace --------------------------------
(***************************************************************************)
(* Trace validation at the real format size (run kind D).                  *)
(* VERIF_TRACE names an ndjson file of recorded real calls: operation,     *)
(* operands as raw 16-byte patterns, mode, results as raw bytes, observed  *)
(* DefaultRoundingMode after the call, text outputs as byte tuples.        *)
(* The state is the calculator session: DefaultRoundingMode (`mode`) and   *)
(* the position in the trace.  Every event is one action of the session;   *)
(* its verdict is computed from the semantic functions.  A non-conforming  *)
(* step does NOT disable Next (the library is deterministic and its calls  *)
(* independent, so the rest of the trace is still checked): the verdict is *)
(* printed and counted, and the logged effect becomes the next state.      *)
(***************************************************************************)
EXTENDS Bid, Arith, Json, IOUtils

Events == ndJsonDeserialize(IOEnv.VERIF_TRACE)

VARIABLES l, mode, bad
vars == <<l, mode, bad>>

Has(e, f) == f \in DOMAIN e
OkSet == {"ok", "ok+"}

EffMode(e) == IF Has(e, "wm") /\ e.wm THEN e.m ELSE mode

\* frame condition on the one piece of shared state
Frame(e) == ~Has(e, "dm") \/ e.dm = (IF e.op = "SetMode" THEN e.m ELSE mode)

\* observed result r (decoded), its bytes rb; ex the exact descriptor
ResultVerdict(ex, e, rb, pl, m) ==
  LET r == Decode(rb) IN
  IF ex.t = "val" /\ ex.v.k = "nan" THEN
     IF /\ r.k = "nan"
        /\ (ex.v.src = "x" => rb = e.x)
        /\ (ex.v.src = "y" => rb = e.y)
        /\ (ex.v.src = "any" => (rb = e.x \/ rb = e.y))
        /\ (ex.v.src = "new" => pl = ex.v.pl)
     THEN "ok" ELSE "reject:nan"
  ELSE Agrees(ex, r, m)

Bin2Verdict(e) ==
  LET x == Decode(e.x)  y == Decode(e.y)  m == EffMode(e)
      ex == CASE e.op = "Add" -> AddExact(x, y, m)
              [] e.op = "Sub" -> SubExact(x, y, m)
              [] e.op = "Mul" -> MulExact(x, y, m)
              [] e.op = "Quo" -> QuoExact(x, y, m)
  IN ResultVerdict(ex, e, e.r, e.pl, m)

QuoRemVerdict(e) ==
  LET x == Decode(e.x)  y == Decode(e.y)  m == EffMode(e)
      ex == QuoRemExact(x, y, m)
      v1 == ResultVerdict(ex[1], e, e.r, e.pl, m)
      v2 == ResultVerdict(ex[2], e, e.r2, e.pl2, m)
  IN IF v1 \notin OkSet THEN v1 \o ":quo" ELSE IF v2 \notin OkSet THEN v2 \o ":rem"
     ELSE IF v1 = "ok+" \/ v2 = "ok+" THEN "ok+" ELSE "ok"

RawVerdict(e) ==
  IF ~Frame(e) THEN "reject:frame-mode"
  ELSE CASE e.op = "SetMode" -> "ok"
         [] e.op \in {"Add", "Sub", "Mul", "Quo"} -> Bin2Verdict(e)
         [] e.op = "QuoRem" -> QuoRemVerdict(e)
         [] OTHER -> "specfault:unknown-op"

Verdict(e) == RawVerdict(e)

Init == l = 1 /\ mode = 0 /\ bad = 0
Next == /\ l <= Len(Events)
        /\ LET e == Events[l]
               v == Verdict(e)
           IN /\ (IF v = "ok" THEN TRUE ELSE PrintT(<<"VERDICT", l, e.i, e.op, v>>))
              /\ mode' = IF e.op = "SetMode" THEN e.m ELSE mode
              /\ bad' = IF v \in OkSet THEN bad ELSE bad + 1
        /\ l' = l + 1
Spec == Init /\ [][Next]_vars

TraceAccepted == /\ TLCGet("stats").diameter - 1 = Len(Events)
                 /\ PrintT(<<"CONSUMED", Len(Events)>>)
=============================================================================
