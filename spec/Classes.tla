------------------------------ MODULE Classes ------------------------------
(***************************************************************************)
(* Run kind (B): the finite CASE STRUCTURE of the special-operand rules,   *)
(* enumerated exhaustively by TLC at the REAL format size and turned into  *)
(* one implementation test per state.                                      *)
(* Reps is a set of class representatives (every class of operand the      *)
(* rules of C15 / C18 / C04 distinguish, several encodings of the values   *)
(* whose recognition matters: one, integers written with a fraction, zeros *)
(* with exponents).  Every initial state is one call; its expected result  *)
(* is the value of the specification's semantic function.  TLC visits all  *)
(* of them (no simulation, no sampling) and prints each as a three-step    *)
(* behaviour in the format of Calc, which the driver replays into the      *)
(* library, comparing the destination register.                            *)
(***************************************************************************)
EXTENDS Bid, Elem, Json, TLC

CONSTANTS ModeSet,     \* rounding modes to enumerate (a subset of Modes)
          Families     \* which families of calls: a subset of {"unary", "pow", "bin", "quorem", "minmax", "cmp", "quant", "codec", "int", "text", "scale"}

VARIABLE c
vars == <<c>>

P(neg, coef, q) == Fin(neg, coef, q)
Both(coef, q) == {P(FALSE, coef, q), P(TRUE, coef, q)}
Reps ==
  {NaNV, InfV(FALSE), InfV(TRUE)}
  \cup Both(<< >>, 0) \cup Both(<< >>, Emax) \cup Both(<< >>, Emin) \cup Both(<< >>, 0 - 5)     \* zeros
  \cup Both(One, 0) \cup Both(FromInt(10), 0 - 1) \cup Both(Pow10(34), 0 - 34)                      \* one in three encodings
  \cup Both(FromInt(2), 0) \cup Both(FromInt(3), 0) \cup Both(FromInt(30), 0 - 1) \cup Both(FromInt(4), 0)          \* small integers, 3.0
  \cup Both(FromInt(5), 0 - 1) \cup Both(FromInt(50), 0 - 2) \cup Both(FromInt(15), 0 - 1)                     \* 0.5 twice, 1.5
  \cup Both(FromInt(10), 0) \cup Both(One, 0 - 1) \cup Both(One, 2) \cup Both(One, 0 - 3)            \* powers of ten
  \cup Both(FromInt(9999), 0 - 4) \cup Both(FromInt(10001), 0 - 4)                                        \* either side of one
  \cup Both(Cmax, 0) \cup Both(One, 40) \cup Both(FromInt(7), 20)                                   \* huge odd / even integers
  \cup Both(Cmax, Emax) \cup Both(One, Emin) \cup Both(One, Emax) \cup Both(FromInt(25), 0 - 1)      \* range ends, 2.5

UnaryOps == {"Exp", "Exp2", "Exp10", "Expm1", "Log", "Log2", "Log10", "Log1p", "Sqrt", "Cbrt"}
BinOps == {"Add", "Sub", "Mul", "Quo"}

Plain(v) == [k |-> v.k, neg |-> (IF v.k = "nan" THEN FALSE ELSE v.neg), c |-> v.c, q |-> v.q]
LoadStep(d, v) == [op |-> "Load", d |-> d, i |-> 0, exp |-> Plain(v), exp2 |-> Plain(v), bits |-> Encode(v), skip |-> FALSE]
Case(x, y, step) == <<LoadStep(1, x), LoadStep(2, y), step>>
OpStep(op, m, v) == [op |-> op, a |-> 1, b |-> 2, d |-> 3, m |-> m, wm |-> TRUE, exp |-> Plain(v), exp2 |-> Plain(v), bits |-> << >>, skip |-> FALSE]

\* the expected value of a call, or "none" when the specification leaves it to the numeric oracle
UnaryCase(op, x) == LET u == UnarySpecial(op, x) IN IF u.t = "val" THEN Case(x, x, OpStep(op, 0, u.v)) ELSE << >>
PowCase(x, y, m) == LET ld == PowLadder(x, y, m) IN IF ld.t = "num" THEN << >> ELSE Case(x, y, OpStep("Pow", m, Resolve(ld, m)))
BinCase(op, x, y, m) ==
  Case(x, y, OpStep(op, m, CASE op = "Add" -> AddSem(x, y, m) [] op = "Sub" -> SubSem(x, y, m)
                            [] op = "Mul" -> MulSem(x, y, m) [] op = "Quo" -> QuoSem(x, y, m)))
QuoRemCase(x, y, m) ==
  LET qr == QuoRemSem(x, y, m) IN
  Case(x, y, [op |-> "QuoRem", a |-> 1, b |-> 2, d |-> 3, d2 |-> 1, m |-> m, wm |-> TRUE, exp |-> Plain(qr[1]), exp2 |-> Plain(qr[2]),
              bits |-> << >>, skip |-> FALSE])
MinMaxCase(op, x, y) == Case(x, y, [op |-> op, a |-> 1, b |-> 2, d |-> 3, exp |-> Plain(MinMaxSem(x, y, op = "Max")),
                                    exp2 |-> Plain(x), bits |-> << >>, skip |-> FALSE])
CmpCase(x, y) == Case(x, y, [op |-> "Cmp", a |-> 1, b |-> 2, cmp |-> CmpSem(x, y)])

\* the remaining families use the step records of Calc (same replay)
QuantResult(f, x, dp, m) ==
  LET r == CASE f = "Round" -> RoundSem(x, dp, m) [] f = "Ceil" -> CeilSem(x, dp) [] f = "Floor" -> FloorSem(x, dp)
  IN IF r.t = "same" THEN Plain(x) ELSE Plain(r.v)
QuantCase(f, x, dp, m) ==
  Case(x, x, [op |-> f, a |-> 1, d |-> 3, m |-> m, dp |-> dp, exp |-> QuantResult(f, x, dp, m), exp2 |-> Plain(x), bits |-> << >>, skip |-> FALSE])
Simple(op, x, v) == Case(x, x, [op |-> op, a |-> 1, d |-> 3, exp |-> Plain(v), exp2 |-> Plain(x), bits |-> << >>, skip |-> FALSE])
IntCase(ty, x) ==
  LET t == ToIntSem(x, ty) IN
  Case(x, x, [op |-> "Int", ty |-> ty, a |-> 1, d |-> 3, exp |-> Plain(Fin(t[1], t[2], 0)), exp2 |-> Plain(x), bits |-> << >>, skip |-> FALSE])
ScaleCase(x, k) ==
  Case(x, x, [op |-> "Ldexp", a |-> 1, d |-> 3, k |-> k, exp |-> Plain(Resolve(LdexpExact(x, k), RNE)), exp2 |-> Plain(x), bits |-> << >>, skip |-> FALSE])
DpSet == {0 - 34, 0 - 1, 0, 1, 2, 33, 34}
KSet == {0 - 6200, 0 - 40, 0 - 1, 0, 1, 35, 6150}
IntTypes == {"int64", "int32", "uint64", "uint32"}

Init ==
  \/ "quant" \in Families /\ \E x \in Reps, dp \in DpSet :
        \/ \E m \in ModeSet : c = QuantCase("Round", x, dp, m)
        \/ \E f \in {"Ceil", "Floor"} : c = QuantCase(f, x, dp, 0)
  \/ "codec" \in Families /\ \E x \in Reps :
        \/ \E f \in {"Binary", "Sql"} : c = Simple(f, x, x)
        \/ x.k = "fin" /\ c = Simple("Json", x, x)
  \/ "int" \in Families /\ \E x \in Reps, ty \in IntTypes : x.k # "nan" /\ c = IntCase(ty, x)
  \/ "text" \in Families /\ \E x \in Reps : c = Simple("Text", x, IF x.k = "nan" THEN x ELSE ParseSem(StringSem(x), RNE).val)
  \/ "scale" \in Families /\ \E x \in Reps :
        \/ \E k \in KSet : x.k # "nan" /\ c = ScaleCase(x, k)
        \/ c = Simple("Frexp", x, x)
  \/ "unary" \in Families /\ \E op \in UnaryOps, x \in Reps : c = UnaryCase(op, x) /\ c # << >>
  \/ "pow" \in Families /\ \E x \in Reps, y \in Reps, m \in ModeSet : c = PowCase(x, y, m) /\ c # << >>
  \/ "bin" \in Families /\ \E op \in BinOps, x \in Reps, y \in Reps, m \in ModeSet : c = BinCase(op, x, y, m)
  \/ "quorem" \in Families /\ \E x \in Reps, y \in Reps, m \in ModeSet : c = QuoRemCase(x, y, m)
  \/ "minmax" \in Families /\ \E op \in {"Min", "Max"}, x \in Reps, y \in Reps : c = MinMaxCase(op, x, y)
  \/ "cmp" \in Families /\ \E x \in Reps, y \in Reps : c = CmpCase(x, y)
Next == UNCHANGED c
Spec == Init /\ [][Next]_vars

\* every state is emitted (the state space is exactly the set of cases)
Emit == PrintT(<<"BEHAVIOUR", ToJson(c)>>)
\* sanity of the case set itself: every expected value is a member of the format or special
WellFormed == \A i \in 1..Len(c) : ("exp" \in DOMAIN c[i]) => (c[i].exp.k = "fin" => IsMember(c[i].exp))
=============================================================================
