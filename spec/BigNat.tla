------------------------------- MODULE BigNat -------------------------------
(***************************************************************************)
(* Arbitrary-precision natural numbers inside TLA+ (TLC integers are       *)
(* 32-bit).  A BigNat is a tuple of limbs, base 10^4, little-endian,       *)
(* normalised: no zero limb at the high end, zero is << >>.  A decimal     *)
(* base makes "number of digits", "drop k digits", "times 10^k" limb       *)
(* shifts plus one small multiply/divide.  Loops are FoldLeft (iterative   *)
(* Java override in CommunityModules); RECURSIVE is used only where the    *)
(* depth is bounded by a small constant.                                   *)
(* Checked by MC_BigNat.tla against TLC's native integers and by algebraic *)
(* laws on multi-limb boundary values.                                     *)
(***************************************************************************)
EXTENDS Integers, Sequences, SequencesExt, TLC

B  == 10000
BD == 4

Min2(a, b) == IF a < b THEN a ELSE b
Max2(a, b) == IF a > b THEN a ELSE b

Zero == << >>
One  == <<1>>
IsZeroN(a) == a = << >>

Limb(a, i) == IF i >= 1 /\ i <= Len(a) THEN a[i] ELSE 0

\* drop zero limbs at the high end
Norm(a) == IF a = << >> THEN a
           ELSE IF a[Len(a)] # 0 THEN a
           ELSE SubSeq(a, 1, SelectLastInSeq(a, LAMBDA x : x # 0))

IsBigNat(a) == /\ \A i \in 1..Len(a) : a[i] \in 0..(B-1)
               /\ (a = << >> \/ a[Len(a)] # 0)

\* 0 <= n < 2^31
FromInt(n) == IF n = 0 THEN << >>
              ELSE IF n < B THEN <<n>>
              ELSE IF n < B*B THEN <<n % B, n \div B>>
              ELSE <<n % B, (n \div B) % B, n \div (B*B)>>

\* value must be below 2^31 (at most 3 limbs, top limb <= 21); callers guard
ToInt(a) == IF Len(a) = 0 THEN 0
            ELSE IF Len(a) = 1 THEN a[1]
            ELSE IF Len(a) = 2 THEN a[1] + B * a[2]
            ELSE IF Len(a) = 3 /\ a[3] <= 21 THEN a[1] + B * a[2] + B * B * a[3]
            ELSE Assert(FALSE, <<"BigNat.ToInt: too large", a>>)

FitsInt(a) == Len(a) <= 2 \/ (Len(a) = 3 /\ a[3] <= 21)

Cmp(a, b) ==
  IF Len(a) # Len(b) THEN (IF Len(a) < Len(b) THEN -1 ELSE 1)
  ELSE LET idx == SelectLastInSeq([i \in 1..Len(a) |-> a[i] # b[i]], LAMBDA x : x)
       IN IF idx = 0 THEN 0 ELSE IF a[idx] < b[idx] THEN -1 ELSE 1

Lt(a, b) == Cmp(a, b) < 0
Le(a, b) == Cmp(a, b) <= 0
Gt(a, b) == Cmp(a, b) > 0
Ge(a, b) == Cmp(a, b) >= 0

\* Len(a) >= Len(b); the carry is propagated only as far as it goes (never folds over the long tail)
AddL(a, b) ==
  LET k == Len(b)
      n == Len(a)
      step(acc, i) == LET s == a[i] + b[i] + acc[2] IN <<Append(acc[1], s % B), s \div B>>
      r == FoldLeft(step, << << >>, 0>>, [i \in 1..k |-> i])
  IN IF r[2] = 0 THEN r[1] \o SubSeq(a, k+1, n)
     ELSE LET j == SelectInSubSeq(a, k+1, n, LAMBDA x : x # B-1)
          IN IF j = 0 THEN r[1] \o [i \in 1..(n-k) |-> 0] \o <<1>>
             ELSE r[1] \o [i \in 1..(j-k-1) |-> 0] \o <<a[j]+1>> \o SubSeq(a, j+1, n)

Add(a, b) == IF Len(a) >= Len(b) THEN AddL(a, b) ELSE AddL(b, a)

\* a >= b required
Sub(a, b) ==
  LET k == Len(b)
      n == Len(a)
      step(acc, i) == LET s == a[i] - b[i] - acc[2]
                      IN IF s < 0 THEN <<Append(acc[1], s + B), 1>> ELSE <<Append(acc[1], s), 0>>
      r == FoldLeft(step, << << >>, 0>>, [i \in 1..k |-> i])
  IN IF r[2] = 0 THEN Norm(r[1] \o SubSeq(a, k+1, n))
     ELSE LET j == SelectInSubSeq(a, k+1, n, LAMBDA x : x # 0)
          IN IF j = 0 THEN Assert(FALSE, <<"BigNat.Sub: negative result", a, b>>)
             ELSE Norm(r[1] \o [i \in 1..(j-k-1) |-> B-1] \o <<a[j]-1>> \o SubSeq(a, j+1, n))

Monus(a, b) == IF Lt(a, b) THEN << >> ELSE Sub(a, b)
AbsDiff(a, b) == IF Lt(a, b) THEN Sub(b, a) ELSE Sub(a, b)

\* 0 <= d <= 200000  (9999*200000 + carry stays below 2^31)
MulSmall(a, d) ==
  IF d = 0 \/ a = << >> THEN << >>
  ELSE IF d = 1 THEN a
  ELSE LET step(acc, i) == LET s == a[i] * d + acc[2] IN <<Append(acc[1], s % B), s \div B>>
           r == FoldLeft(step, << << >>, 0>>, [i \in 1..Len(a) |-> i])
       IN IF r[2] = 0 THEN r[1]
          ELSE IF r[2] < B THEN Append(r[1], r[2])
          ELSE r[1] \o <<r[2] % B, r[2] \div B>>

ShiftLimbs(a, k) == IF a = << >> \/ k = 0 THEN a ELSE [i \in 1..k |-> 0] \o a

\* schoolbook; folds over the limbs of b, so callers put the short operand second when they can
MulO(a, b) ==
  FoldLeft(LAMBDA acc, i : IF b[i] = 0 THEN acc ELSE Add(acc, ShiftLimbs(MulSmall(a, b[i]), i-1)),
           << >>, [i \in 1..Len(b) |-> i])
Mul(a, b) == IF a = << >> \/ b = << >> THEN << >>
             ELSE IF Len(a) >= Len(b) THEN MulO(a, b) ELSE MulO(b, a)

P10(k) == CASE k = 0 -> 1 [] k = 1 -> 10 [] k = 2 -> 100 [] k = 3 -> 1000 [] k = 4 -> 10000

\* 1 <= d <= 200000; result <<quotient, remainder (an Int)>>
DivModSmall(a, d) ==
  LET n == Len(a)
      step(acc, j) == LET i == n + 1 - j
                          cur == acc[2] * B + a[i]
                      IN <<Append(acc[1], cur \div d), cur % d>>
      r == FoldLeft(step, << << >>, 0>>, [j \in 1..n |-> j])
  IN <<Norm(Reverse(r[1])), r[2]>>

MulPow10(a, k) == IF k = 0 THEN a ELSE ShiftLimbs(MulSmall(a, P10(k % BD)), k \div BD)
Pow10(k) == MulPow10(One, k)

NumDigits(a) == IF a = << >> THEN 0
                ELSE LET t == a[Len(a)]
                     IN (Len(a)-1)*BD + (IF t >= 1000 THEN 4 ELSE IF t >= 100 THEN 3 ELSE IF t >= 10 THEN 2 ELSE 1)

\* floor(a / 10^k)
DivPow10(a, k) ==
  IF k = 0 THEN a ELSE
  LET hi == IF k \div BD >= Len(a) THEN << >> ELSE SubSeq(a, k \div BD + 1, Len(a))
  IN IF k % BD = 0 THEN hi ELSE DivModSmall(hi, P10(k % BD))[1]

\* a mod 10^k = 0
ModPow10IsZero(a, k) ==
  /\ \A i \in 1..Min2(k \div BD, Len(a)) : a[i] = 0
  /\ (k % BD = 0 \/ Limb(a, k \div BD + 1) % P10(k % BD) = 0)

\* a mod 10^k
ModPow10(a, k) ==
  IF k = 0 THEN << >> ELSE
  LET w == k \div BD
      low == SubSeq(a, 1, Min2(w, Len(a)))
  IN IF k % BD = 0 \/ w >= Len(a) THEN Norm(low)
     ELSE Norm(low \o <<a[w+1] % P10(k % BD)>>)

\* decimal digit number k (0 = least significant)
DigitAt(a, k) == (Limb(a, k \div BD + 1) \div P10(k % BD)) % 10

\* number of trailing decimal zeros of a non-zero a
TrailingZeros(a) ==
  LET j == SelectInSeq(a, LAMBDA x : x # 0)
      t == a[j]
  IN (j-1)*BD + (IF t % 10 # 0 THEN 0 ELSE IF t % 100 # 0 THEN 1 ELSE IF t % 1000 # 0 THEN 2 ELSE 3)

IsOdd(a) == Limb(a, 1) % 2 = 1

(***************************************************************************)
(* General division: limb-wise long division.  Divisor and dividend are    *)
(* scaled by f = B \div (top(d)+1) so that the top limb of the divisor is  *)
(* at least B/2; the quotient limb estimated from the two leading limbs of *)
(* the running remainder is then at most 2 too large and is corrected      *)
(* downwards.  Result <<quotient, remainder>>.  d # 0.                     *)
(***************************************************************************)
DivMod(a, d) ==
  IF d = << >> THEN Assert(FALSE, "BigNat.DivMod: division by zero")
  ELSE IF Lt(a, d) THEN << << >>, a>>
  ELSE IF Len(d) = 1 THEN LET r == DivModSmall(a, d[1]) IN <<r[1], FromInt(r[2])>>
  ELSE
  LET f  == B \div (d[Len(d)] + 1)
      aa == MulSmall(a, f)
      dd == MulSmall(d, f)
      m  == Len(dd)
      dtop == dd[m]
      n  == Len(aa)
      RECURSIVE fix(_, _)
      fix(qh, rem) == LET p == MulSmall(dd, qh)
                      IN IF Gt(p, rem) THEN fix(qh - 1, rem) ELSE <<qh, Sub(rem, p)>>
      step(acc, j) ==
         LET i   == n + 1 - j
             rem == IF acc[2] = << >> /\ aa[i] = 0 THEN << >> ELSE <<aa[i]>> \o acc[2]
         IN IF Len(rem) < m THEN <<Append(acc[1], 0), rem>>
            ELSE LET top2 == IF Len(rem) > m THEN rem[m+1] * B + rem[m] ELSE rem[m]
                     qh0  == Min2(top2 \div dtop, B - 1)
                     r    == fix(qh0, rem)
                 IN <<Append(acc[1], r[1]), r[2]>>
      res == FoldLeft(step, << << >>, << >> >>, [j \in 1..n |-> j])
  IN <<Norm(Reverse(res[1])), DivModSmall(res[2], f)[1]>>

\* reference version (one decimal digit at a time, compare-and-subtract); used only by MC_BigNat
DivModRef(a, d) ==
  LET nd == NumDigits(a)
      RECURSIVE cnt(_, _)
      cnt(rem, k) == IF Lt(rem, d) THEN <<k, rem>> ELSE cnt(Sub(rem, d), k + 1)
      step(acc, j) == LET k == nd - j
                          rem == Add(MulSmall(acc[2], 10), FromInt(DigitAt(a, k)))
                          c == cnt(rem, 0)
                      IN <<Add(MulSmall(acc[1], 10), FromInt(c[1])), c[2]>>
  IN FoldLeft(step, << << >>, << >> >>, [j \in 1..nd |-> j])

\* 2^k, 5^k by repeated small multiplication (k up to a few thousand)
PowSmall(base, k) ==
  LET chunk == IF base = 2 THEN 16 ELSE 7      \* 2^16 = 65536, 5^7 = 78125
      cv == IF base = 2 THEN 65536 ELSE 78125
      full == FoldLeft(LAMBDA acc, i : MulSmall(acc, cv), One, [i \in 1..(k \div chunk) |-> i])
  IN FoldLeft(LAMBDA acc, i : MulSmall(acc, base), full, [i \in 1..(k % chunk) |-> i])
Pow2(k) == PowSmall(2, k)
Pow5(k) == PowSmall(5, k)

\* integer power by repeated multiplication (small k)
PowN(a, k) == FoldLeft(LAMBDA acc, i : Mul(acc, a), One, [i \in 1..k |-> i])

\* digits most significant first (values 0..9) -> BigNat, grouping by four: linear
FromDigits(ds) ==
  LET n == Len(ds)
      dg(j) == IF j >= 1 THEN ds[j] ELSE 0
      limb(i) == LET r == n - BD*(i-1) IN dg(r) + 10*dg(r-1) + 100*dg(r-2) + 1000*dg(r-3)
  IN Norm([i \in 1..((n + 3) \div BD) |-> limb(i)])

\* BigNat -> digits most significant first, no leading zeros (<< >> for zero)
ToDigits(a) ==
  LET nd == NumDigits(a)
  IN [j \in 1..nd |-> DigitAt(a, nd - j)]

\* big-endian base-256 bytes -> BigNat
FromBytesBE(bs) == FoldLeft(LAMBDA acc, b : Add(MulSmall(acc, 256), FromInt(b)), << >>, bs)

\* BigNat -> exactly n big-endian bytes (value must fit)
ToBytesBE(a, n) ==
  LET step(acc, j) == LET r == DivModSmall(acc[1], 256) IN <<r[1], <<r[2]>> \o acc[2]>>
      res == FoldLeft(step, <<a, << >> >>, [j \in 1..n |-> j])
  IN IF res[1] # << >> THEN Assert(FALSE, "BigNat.ToBytesBE: does not fit") ELSE res[2]

\* generic base-10^4 limbs given by a trace (already little-endian) are BigNats as they are
=============================================================================
