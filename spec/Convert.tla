------------------------------- MODULE Convert -------------------------------
(***************************************************************************)
(* C09 (binary floating point) and C10 (integers, rationals).              *)
(* Integers arrive as [neg, l] with l a BigNat.  Binary floats arrive as   *)
(* [cls, neg, m, e] meaning (-1)^neg * m * 2^e with m a BigNat (cls one of  *)
(* "fin", "zero", "inf", "nan"); for float64/float32 results the driver    *)
(* decomposes the IEEE bits itself.                                        *)
(***************************************************************************)
EXTENDS Codec

\* m * 2^e as an exact magnitude descriptor <<n, d>> (value n/d)
BinRat(m, e) == IF e >= 0 THEN <<Mul(m, Pow2(e)), One>> ELSE <<m, Pow2(0 - e)>>

\* sign of c*10^q - n/d   (c, n, d BigNats, d # 0)
CmpDecRat(c, q, n, d) == 0 - CmpVC(n, d, 0, c, q)

\* |c*10^q - n/d * 10^e| <= (an/ad) * (n/d) * 10^e
RelErrLe(c, q, n, d, e, an, ad) ==
  LET lo == Min2(q, e)
      a == MulPow10(Mul(c, d), q - lo)
      b == MulPow10(n, e - lo)
  IN Le(Mul(AbsDiff(a, b), ad), Mul(an, b))

-----------------------------------------------------------------------------
(* C10 *)
\* integer part, truncated toward zero, as a BigNat magnitude
TruncMag(x) == IF x.q >= 0 THEN MulPow10(x.c, x.q) ELSE DivPow10(x.c, 0 - x.q)

TwoPow(k) == Pow2(k)
TypeMax(ty) == CASE ty = "int64" -> Sub(TwoPow(63), One) [] ty = "int32" -> Sub(TwoPow(31), One)
                 [] ty = "uint64" -> Sub(TwoPow(64), One) [] ty = "uint32" -> Sub(TwoPow(32), One)
TypeMinMag(ty) == CASE ty = "int64" -> TwoPow(63) [] ty = "int32" -> TwoPow(31) [] OTHER -> << >>

\* Int64 / Int32 / Uint64 / Uint32: <<neg, magnitude, ok>>
ToIntSem(x, ty) ==
  IF x.k = "inf" THEN (IF x.neg THEN <<TypeMinMag(ty) # << >>, TypeMinMag(ty), FALSE>> ELSE <<FALSE, TypeMax(ty), FALSE>>)
  ELSE LET t == TruncMag(x) IN
       IF t = << >> THEN <<FALSE, << >>, TRUE>>                       \* the integer 0 fits every type
       ELSE IF x.neg THEN (IF Le(t, TypeMinMag(ty)) THEN <<TRUE, t, TRUE>> ELSE <<TypeMinMag(ty) # << >>, TypeMinMag(ty), FALSE>>)
       ELSE (IF Le(t, TypeMax(ty)) THEN <<FALSE, t, TRUE>> ELSE <<FALSE, TypeMax(ty), FALSE>>)

\* Rat(d) = num/den exactly
RatOK(x, num, den) ==
  /\ den.l # << >> /\ ~den.neg
  /\ (IsZero(x) => num.l = << >>)
  /\ (~IsZero(x) => num.neg = x.neg /\ CmpVC(num.l, den.l, 0, x.c, x.q) = 0)

-----------------------------------------------------------------------------
(* C09: binary formats.  p = precision in bits, emin = exponent of the least subnormal bit, emax2: values are below 2^emax2 *)
F64P == 53   F64Emin == 0 - 1074   F64Top == 1024
F32P == 24   F32Emin == 0 - 149    F32Top == 128

BitLen(m) ==     \* number of bits of a non-zero BigNat (via decimal digits: a short search around 3.32 * digits)
  LET nd == NumDigits(m)
      lo == Max2(0, ((nd - 1) * 3321928) \div 1000000)
      RECURSIVE f(_)
      f(k) == IF Lt(m, Pow2(k)) THEN k ELSE f(k + 1)
  IN f(lo)

\* is f = m*2^e (m # 0) adjacent-or-equal to v = c*10^q in the binary format (p, emin, top): |f - v| < ulp(f-side)
\* stated with the neighbours of f: pred(f) < v < succ(f), and f = v whenever v is representable
BinAdjacent(c, q, m, e, p, emin, top) ==
  LET bl == BitLen(m)
      \* normalise f to the format's grid: unit in the last place of f
      ue == Max2(emin, e + bl - p)                       \* exponent of f's ulp
      fm == BinRat(m, e)                                 \* f as n/d
      ulp == BinRat(One, ue)
      \* f - ulp and f + ulp as rationals over the common denominator 2^max(0,-min(e,ue))
      lo2 == Min2(e, ue)
      fi == MulSmall(Mul(m, Pow2(e - lo2)), 1)           \* f  / 2^lo2
      ui == Pow2(ue - lo2)                               \* ulp / 2^lo2
      den == IF lo2 >= 0 THEN One ELSE Pow2(0 - lo2)
      scale == IF lo2 >= 0 THEN Pow2(lo2) ELSE One
      below == Mul(Sub(fi, ui), scale)                   \* (f - ulp) * den
      above == Mul(Add(fi, ui), scale)
      \* a power of two has a half-size gap below it
      isPow2 == m = Pow2(bl - 1) /\ e + bl - p > emin
      belowP == IF isPow2 THEN Mul(Sub(MulSmall(fi, 2), ui), scale) ELSE MulSmall(below, 2)   \* 2 * (f - gapbelow) * den
  IN /\ CmpDecRat(c, q, above, den) < 0
     /\ CmpDecRat(c, q, belowP, MulSmall(den, 2)) > 0

\* Float64()/Float32() result f (record) for a finite non-zero d
FloatAllowed(x, f, p, emin, top) ==
  LET maxf == <<Sub(Pow2(p), One), top - p>>              \* largest finite: (2^p - 1) * 2^(top-p)
      aboveMax == CmpDecRat(x.c, x.q, Mul(maxf[1], Pow2(maxf[2])), One) > 0
      tooBig == CmpDecRat(x.c, x.q, Pow2(top), One) >= 0
      belowMin == CmpDecRat(x.c, x.q, One, Pow2(0 - emin)) < 0
  IN /\ f.cls # "nan" /\ f.neg = x.neg
     /\ CASE f.cls = "inf" -> aboveMax
          [] f.cls = "zero" -> belowMin
          [] OTHER -> ~tooBig /\ BinAdjacent(x.c, x.q, f.m, f.e, p, emin, top)

\* big.Float result with precision prec: relative error <= 2^(1-prec); correctly rounded (nearest) when prec >= 114
BigFloatOK(x, f) ==
  LET fr == BinRat(f.m, f.e)
      bl == BitLen(f.m)
  IN /\ f.cls = "fin" /\ f.neg = x.neg /\ bl <= f.prec
     /\ RelErrLe(x.c, x.q, fr[1], fr[2], 0, One, Pow2(f.prec - 1)) \/
        \* the bound is stated relative to d; the two readings differ by a second-order term, so test against d as well
        LET lo == Min2(x.q, 0) IN
        Le(Mul(AbsDiff(MulPow10(Mul(x.c, fr[2]), x.q - lo), MulPow10(fr[1], 0 - lo)), Pow2(f.prec - 1)),
           MulPow10(Mul(x.c, fr[2]), x.q - lo))
     /\ (f.prec >= 114 =>
           \* nearest: 2 * |f - v| <= ulp(f) where ulp(f) = 2^(e + bl - prec)
           LET ue == f.e + bl - f.prec
               u == BinRat(One, ue)
               lo == Min2(x.q, 0)
               \* |c*10^q - fn/fd| * 2 <= un/ud   <=>  2 * |c*fd*10^(q-lo) - fn*10^(-lo)| * ud <= un * fd * 10^(-lo)
           IN Le(Mul(MulSmall(AbsDiff(MulPow10(Mul(x.c, fr[2]), x.q - lo), MulPow10(fr[1], 0 - lo)), 2), u[2]),
                 MulPow10(Mul(u[1], fr[2]), 0 - lo)))
=============================================================================
