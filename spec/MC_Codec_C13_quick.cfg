SPECIFICATION Spec
CONSTANTS CmaxI = 129  EminNeg = 6  Emax = 6  Family = "json"  NMax = 0  EWin = 0
INVARIANTS JsonPredicate DecomposeRoundTrip
CHECK_DEADLOCK FALSE
