SPECIFICATION Spec
CONSTANTS CmaxI = 129  EminNeg = 8  Emax = 8  Family = "str"  MaxLen = 1
INVARIANTS StringExactMinimalRoundTrip
CHECK_DEADLOCK FALSE
