--------------------------------- MODULE Ops ---------------------------------
(***************************************************************************)
(* Semantic functions for comparison (C04), quantisation (C08), scaling    *)
(* (C11), the canonical form (C19).  Same conventions as Arith.tla.        *)
(***************************************************************************)
EXTENDS Arith

-----------------------------------------------------------------------------
(* C04: comparisons answer by the exact order of the denoted values *)

\* Cmp / CmpAbs: <<less, equal, greater>>; a NaN operand makes all three false
CmpSem(x, y) ==
  IF IsNaN(x) \/ IsNaN(y) THEN <<FALSE, FALSE, FALSE>>
  ELSE LET c == CmpVal(x, y) IN <<c < 0, c = 0, c > 0>>
CmpAbsSem(x, y) == CmpSem(AbsSem(x), AbsSem(y))
EqualSem(x, y) == ~IsNaN(x) /\ ~IsNaN(y) /\ CmpVal(x, y) = 0
\* Compare: a total order with NaN first (all NaNs equal)
CompareSem(x, y) ==
  IF IsNaN(x) THEN (IF IsNaN(y) THEN 0 ELSE -1)
  ELSE IF IsNaN(y) THEN 1 ELSE CmpVal(x, y)
\* Sign: -1, 0, 1; panics on NaN
SignSem(x) == IF IsZero(x) THEN 0 ELSE IF x.neg THEN -1 ELSE 1

-----------------------------------------------------------------------------
(* C08: Round / Ceil / Floor.  dp is an Int (the driver clamps |dp| to 2*10^9; beyond 10^5 nothing    *)
(* depends on its magnitude).  flush: the pinned rule of Round (magnitudes below a tenth of the quantum *)
(* become a signed zero in every mode); Ceil and Floor have no such rule.                             *)

\* c' * 10^e0 as a format value, Inf when it is not representable
FitOrInf(neg, c, e0) ==
  IF c = << >> THEN ZeroV(neg)
  ELSE IF e0 < Emin THEN Fin(neg, c, e0)         \* cannot happen for quantisation results; kept total
  ELSE IF e0 <= Emax THEN Fin(neg, c, e0)
  ELSE IF e0 - Emax <= PDigits /\ Le(MulPow10(c, e0 - Emax), Cmax) THEN Fin(neg, MulPow10(c, e0 - Emax), Emax)
  ELSE InfV(neg)

QuantSem(x, dp, m, flush) ==
  IF x.k # "fin" THEN [t |-> "same"]
  ELSE IF IsZero(x) THEN [t |-> "val", v |-> ZeroV(x.neg)]
  ELSE LET e0 == 0 - dp IN
       IF e0 <= x.q THEN [t |-> "val", v |-> x]                            \* already a multiple of the quantum
       ELSE LET k  == e0 - x.q                                             \* digits dropped, k > 0
                nd == NumDigits(x.c)
            IN IF flush /\ nd <= k - 1 THEN [t |-> "val", v |-> ZeroV(x.neg)]     \* |x| < quantum / 10
               ELSE LET fl == IF k > nd + 1 THEN << << >>, -1, FALSE>> ELSE FloorAt(x.c, One, x.q, e0)
                        up == RoundUp(m, x.neg, fl[2], fl[3], IsOdd(fl[1]))
                        c1 == IF up THEN Add(fl[1], One) ELSE fl[1]
                    IN [t |-> "val", v |-> FitOrInf(x.neg, c1, e0)]
RoundSem(x, dp, m) == QuantSem(x, dp, m, TRUE)
CeilSem(x, dp)     == QuantSem(x, dp, RPI, FALSE)
FloorSem(x, dp)    == QuantSem(x, dp, RNI, FALSE)

\* |r - x| <= one quantum (10^-dp), for finite r
WithinQuantum(x, r, dp) ==
  LET e0 == 0 - dp
      lo == Min2(x.q, r.q)
      diff == AbsDiff(MulPow10(x.c, x.q - lo), MulPow10(r.c, r.q - lo))      \* |x - r| = diff * 10^lo
  IN IF e0 < lo THEN diff = << >>                     \* quantum finer than both: only equality is within it
     ELSE IF e0 - lo > 50 + PDigits THEN TRUE         \* quantum astronomically larger than both
     ELSE Le(diff, Pow10(e0 - lo))

-----------------------------------------------------------------------------
(* C11: New / Ldexp / Frexp *)

\* sig: [neg, l] (an int64), exp: Int (clamped by the driver to +-2*10^9)
NewExact(sig, exp) ==
  IF sig.l = << >> THEN Val(ZeroV(FALSE)) ELSE Rnd(sig.neg, sig.l, One, exp)
LdexpExact(x, exp) ==
  IF x.k # "fin" THEN Val(x)
  ELSE IF IsZero(x) THEN Val(ZeroV(x.neg))
  ELSE Rnd(x.neg, x.c, One, x.q + exp)
\* Frexp(d) = (frac, e): 0.1 <= |frac| < 1 and frac * 10^e = d exactly
FrexpOK(x, frac, e) ==
  /\ frac.k = "fin" /\ frac.neg = x.neg /\ frac.c # << >>
  /\ NumDigits(frac.c) + frac.q = 0
  /\ CmpMag(frac.c, frac.q + e, x.c, x.q) = 0

-----------------------------------------------------------------------------
(* C19: Canonical -- the cohort member whose exponent is closest to zero *)
CanonV(x) ==
  IF x.k = "nan" THEN [x EXCEPT !.neg = FALSE]             \* "only the bits required to represent the special value"
  ELSE IF x.k = "inf" THEN x
  ELSE IF IsZero(x) THEN Fin(x.neg, << >>, Emin)           \* all-zero bits but the sign
  ELSE IF x.q > 0 THEN
     LET room == PDigits - NumDigits(x.c) + 1                 \* never more than this many extra digits
         RECURSIVE up(_, _, _)
         up(c, q, n) == IF q > 0 /\ n > 0 /\ Le(MulSmall(c, 10), Cmax) THEN up(MulSmall(c, 10), q - 1, n - 1) ELSE <<c, q>>
         r == up(x.c, x.q, room)
     IN Fin(x.neg, r[1], r[2])
  ELSE LET tz == Min2(TrailingZeros(x.c), 0 - x.q)
       IN Fin(x.neg, DivPow10(x.c, tz), x.q + tz)
\* declaratively: same value and sign, and no cohort member has an exponent closer to zero
AbsI(i) == IF i < 0 THEN 0 - i ELSE i
IsCanon(x, r) ==
  /\ ResEq(x, r)
  /\ (IsZero(x) \/
      /\ (r.q > 0 => Gt(MulSmall(r.c, 10), Cmax))
      /\ (r.q < 0 => ~ModPow10IsZero(r.c, 1)))
=============================================================================
