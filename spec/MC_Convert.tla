----------------------------- MODULE MC_Convert -----------------------------
(***************************************************************************)
(* Kind-(A) model for C09/C10: a small decimal format against a toy binary *)
(* format (p = 3 bits, least bit 2^-4, values below 2^4).  BinAdjacent /   *)
(* FloatAllowed are compared with a brute-force statement over the finite  *)
(* set of toy floats; integer truncation and the exact rational against    *)
(* native integer arithmetic.                                              *)
(***************************************************************************)
EXTENDS Convert, SmallVals

VARIABLES stage, x, fm, fe
vars == <<stage, x, fm, fe>>

P == 3   EMINB == 0 - 4   TOP == 4
\* every toy float as <<m, e>> with m odd or the power-of-two forms the driver would produce (trailing zero bits stripped)
Normals == { <<m, e>> : m \in 4..7, e \in EMINB..(TOP - P) }
Subs == { <<m, EMINB>> : m \in 1..3 }
Strip(me) == LET RECURSIVE f(_, _)
                 f(m, e) == IF m % 2 = 0 THEN f(m \div 2, e + 1) ELSE <<m, e>>
             IN f(me[1], me[2])
Floats == { Strip(me) : me \in Normals \cup Subs }

Init == stage = 0 /\ x \in { v \in Members : ~IsZero(v) /\ ~v.neg } /\ fm = 1 /\ fe = 0
Next == stage = 0 /\ stage' = 1 /\ x' = x /\ \E me \in Floats : fm' = me[1] /\ fe' = me[2]
Spec == Init /\ [][Next]_vars

\* native scaling: everything times 16 * 10^(-Emin)
SC == 16 * P10I(0 - Emin)
XV == CI(x) * P10I(x.q - Emin) * 16
FV(m, e) == m * ToInt(Pow2(e - EMINB)) * P10I(0 - Emin)
AllFV == { FV(me[1], me[2]) : me \in Floats }
TopV == ToInt(Pow2(TOP - EMINB)) * P10I(0 - Emin)
PredV(v) == LET S == { w \in AllFV : w < v } IN IF S = {} THEN 0 ELSE CHOOSE w \in S : \A u \in S : u <= w
SuccV(v) == LET S == { w \in AllFV : w > v } IN IF S = {} THEN TopV ELSE CHOOSE w \in S : \A u \in S : w <= u

AdjacentExact ==
  stage = 1 =>
    LET fv == FV(fm, fe)
        brute == PredV(fv) < XV /\ XV < SuccV(fv)
    IN BinAdjacent(x.c, x.q, FromInt(fm), fe, P, EMINB, TOP) = brute
FloatAllowedSound ==
  stage = 1 =>
    LET f == [cls |-> "fin", neg |-> FALSE, m |-> FromInt(fm), e |-> fe] IN
    /\ (FloatAllowed(x, f, P, EMINB, TOP) => PredV(FV(fm, fe)) < XV /\ XV < SuccV(FV(fm, fe)) /\ XV < TopV)
    /\ (FloatAllowed(x, [f EXCEPT !.cls = "inf"], P, EMINB, TOP) = (XV > 7 * 2 * 16 * P10I(0 - Emin)))
    /\ (FloatAllowed(x, [f EXCEPT !.cls = "zero"], P, EMINB, TOP) = (XV < FV(1, EMINB)))
    /\ ~FloatAllowed(x, [f EXCEPT !.neg = TRUE], P, EMINB, TOP)
\* some float is always allowed, and an exactly representable value allows only itself
Totality ==
  stage = 1 =>
    /\ (\E me \in Floats : BinAdjacent(x.c, x.q, FromInt(me[1]), me[2], P, EMINB, TOP))
         \/ XV >= TopV \/ XV < FV(1, EMINB)
    /\ (XV \in AllFV => \A me \in Floats : BinAdjacent(x.c, x.q, FromInt(me[1]), me[2], P, EMINB, TOP) = (FV(me[1], me[2]) = XV))
\* C10 pieces: truncation and the exact rational
IntAndRat ==
  stage = 1 =>
    /\ ToInt(TruncMag(x)) = (CI(x) * P10I(x.q - Emin)) \div P10I(0 - Emin)
    /\ RatOK(x, [neg |-> FALSE, l |-> FromInt(CI(x) * P10I(x.q - Emin))], [neg |-> FALSE, l |-> Pow10(0 - Emin)])
    /\ ~RatOK(x, [neg |-> FALSE, l |-> FromInt(CI(x) * P10I(x.q - Emin) + 1)], [neg |-> FALSE, l |-> Pow10(0 - Emin)])
    /\ RelErrLe(x.c, x.q, FromInt(XV), FromInt(SC), 0, One, Pow10(9))
    /\ (BitLen(FromInt(fm)) = (IF fm >= 4 THEN 3 ELSE IF fm >= 2 THEN 2 ELSE 1))
=============================================================================
