SPECIFICATION Spec
CONSTANTS CmaxI = 129  EminNeg = 2  Emax = 2  Family = "scale"  DpMax = 7  SigMax = 60
INVARIANTS ScaleExact
CHECK_DEADLOCK FALSE
