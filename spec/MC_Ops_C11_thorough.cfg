SPECIFICATION Spec
CONSTANTS CmaxI = 129  EminNeg = 3  Emax = 3  Family = "scale"  DpMax = 9  SigMax = 300
INVARIANTS ScaleExact
CHECK_DEADLOCK FALSE
