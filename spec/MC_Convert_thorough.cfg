SPECIFICATION Spec
CONSTANTS CmaxI = 399  EminNeg = 4  Emax = 1
INVARIANTS AdjacentExact FloatAllowedSound Totality IntAndRat
CHECK_DEADLOCK FALSE
