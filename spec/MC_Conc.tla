------------------------------- MODULE MC_Conc -------------------------------
(***************************************************************************)
(* Kind-(A) model for C20: goroutines calling pure operations that read    *)
(* the shared DefaultRoundingMode.  A call is two steps: CallBegin reads   *)
(* the shared mode (the only shared state an operation may look at) and    *)
(* latches its arguments, CallEnd publishes the result.  TLC explores      *)
(* every interleaving.                                                     *)
(*   Safe config (WriterEnabled = FALSE): every completed call returns the *)
(*     sequential result for its arguments and the mode; mode never        *)
(*     changes (C20_ModeOnlyBySet).                                        *)
(*   Negative control (WriterEnabled = TRUE): a concurrent SetMode makes   *)
(*     the result schedule dependent -- TLC must find the counterexample;  *)
(*     the property's quantifier excludes exactly that.                    *)
(***************************************************************************)
EXTENDS Arith, SmallVals

CONSTANTS G, WriterEnabled, Calls, PoolC  \* goroutines 1..G, calls per goroutine, coefficients of the operand pool
VARIABLES mode, pc, pend, done, nset
vars == <<mode, pc, pend, done, nset>>

Pool == { Fin(FALSE, FromInt(c), q) : c \in PoolC, q \in {0 - 1, 0} }
Init == /\ mode = RNE /\ pc = [g \in 1..G |-> "idle"] /\ pend = [g \in 1..G |-> <<>>]
        /\ done = [g \in 1..G |-> 0] /\ nset = 0

CallBegin(g) == /\ pc[g] = "idle" /\ done[g] < Calls
                /\ \E x \in Pool, y \in Pool, op \in {"Add", "Quo"} :
                     pend' = [pend EXCEPT ![g] = <<op, x, y, mode>>]       \* the shared mode is read here
                /\ pc' = [pc EXCEPT ![g] = "running"]
                /\ UNCHANGED <<mode, done, nset>>
Result(p) == IF p[1] = "Add" THEN AddSem(p[2], p[3], p[4]) ELSE QuoSem(p[2], p[3], p[4])
CallEnd(g) == /\ pc[g] = "running"
              /\ pc' = [pc EXCEPT ![g] = "idle"]
              /\ done' = [done EXCEPT ![g] = @ + 1]
              /\ pend' = [pend EXCEPT ![g] = <<>>]
              /\ UNCHANGED <<mode, nset>>
SetMode(m) == /\ WriterEnabled /\ nset < 1 /\ mode' = m /\ nset' = nset + 1 /\ UNCHANGED <<pc, pend, done>>
Next == (\E g \in 1..G : CallBegin(g) \/ CallEnd(g)) \/ (\E m \in {RTZ, RAZ} : SetMode(m))
Spec == Init /\ [][Next]_vars

\* a call that is about to return yields what a sequential call with the mode current at that moment would yield
ReturnsSequentialResult ==
  \A g \in 1..G : pc[g] = "running" =>
     LET p == pend[g] IN ResEq(Result(p), Result(<<p[1], p[2], p[3], mode>>))
C20_ModeOnlyBySet == [][mode' # mode => \E m \in Modes : SetMode(m)]_vars
TypeOK == mode \in Modes /\ \A g \in 1..G : pc[g] \in {"idle", "running"}
=============================================================================
