package main

import (
	"math"
	"math/big"

	d128 "github.com/woodsbury/decimal128"
)

// ---- C10 -------------------------------------------------------------------

func (g *Gen) nearBound() d128.Decimal {
	bounds := []string{"2147483647", "2147483648", "4294967295", "4294967296", "9223372036854775807", "9223372036854775808", "18446744073709551615", "18446744073709551616", "0", "1"}
	b, _ := new(big.Int).SetString(bounds[g.r.Intn(len(bounds))], 10)
	neg := g.r.Intn(2) == 0
	// bound + delta with delta in {-1, -0.5, -tiny, 0, +tiny, +0.5, +1}, written with some fractional digits
	k := []int{0, 1, 3, 10, 14}[g.r.Intn(5)]
	c := new(big.Int).Mul(b, pow10(k))
	switch g.r.Intn(7) {
	case 0:
		c.Sub(c, pow10(k))
	case 1:
		c.Sub(c, new(big.Int).Div(pow10(k), big.NewInt(2)))
	case 2:
		c.Sub(c, big.NewInt(1))
	case 4:
		c.Add(c, big.NewInt(1))
	case 5:
		c.Add(c, new(big.Int).Div(pow10(k), big.NewInt(2)))
	case 6:
		c.Add(c, pow10(k))
	}
	if c.Sign() < 0 {
		c.Neg(c)
	}
	if c.Cmp(cMax) > 0 {
		c = new(big.Int).Set(b)
		k = 0
	}
	return g.cohort(mk(neg, c, -k))
}

func (g *Gen) bigInt() *big.Int {
	bitsList := []int{1, 31, 32, 63, 64, 65, 112, 113, 114, 127, 128, 129, 130, 192, 255, 256, 257, 300, 1000, 5000, 20000, 20300, 20400, 20500}
	n := bitsList[g.r.Intn(len(bitsList))]
	if g.tier != "thorough" && n > 5000 && g.r.Intn(4) != 0 {
		n = bitsList[g.r.Intn(19)]
	}
	var v *big.Int
	switch g.r.Intn(5) {
	case 0:
		v = new(big.Int).Lsh(big.NewInt(1), uint(n))
	case 1:
		v = new(big.Int).Sub(new(big.Int).Lsh(big.NewInt(1), uint(n)), big.NewInt(1))
	case 2: // decimal all-nines / ties at the 34-35 digit boundary, also hundreds of digits long (several 10^18 chunks)
		nd := 35 + g.r.Intn(30)
		if g.r.Intn(2) == 0 {
			nd = []int{60, 78, 96, 100, 115, 130, 150, 200, 400, 1000}[g.r.Intn(10)]
		}
		v = new(big.Int).Add(new(big.Int).Mul(g.fullCoef(), pow10(nd-34)), new(big.Int).Div(pow10(nd-34), big.NewInt(2)))
		if g.r.Intn(2) == 0 {
			v.Add(v, big.NewInt(int64(g.r.Intn(3)-1)))
		}
	default:
		v = new(big.Int).Rand(g.r, new(big.Int).Lsh(big.NewInt(1), uint(n)))
	}
	if g.r.Intn(2) == 0 {
		v.Neg(v)
	}
	return v
}

func genC10(g *Gen) {
	g.setMode(0)
	// every special coefficient (zero included) at eight consecutive exponents in three places of the range, and at the
	// exponents where the integer conversions change path
	g.encodingGrid(0.06, func(x d128.Decimal) {
		for _, ty := range []string{"int64", "int32", "uint64", "uint32"} {
			te := Ev{"op": "ToInt", "ty": ty}
			te.setDec("x", x)
			g.emit(te)
		}
		e := Ev{"op": "Int"}
		e.setDec("x", x)
		g.emit(e)
	})
	zexp := []int{1, 9, 10, 18, 19, 20, 21, 38, 39, 100, 6111, -1, -19, -20, -34, -35, -36, -6176}
	g.gridRun(len(zexp)*len(gridCoefs), 0.08, func(i int) {
		x := mk(g.r.Intn(2) == 0, gridCoefs[i%len(gridCoefs)], zexp[i/len(gridCoefs)])
		for _, ty := range []string{"int64", "int32", "uint64", "uint32"} {
			te := Ev{"op": "ToInt", "ty": ty}
			te.setDec("x", x)
			g.emit(te)
		}
		e := Ev{"op": "Rat"}
		e.setDec("x", x)
		g.emit(e)
	})
	// long integers K * 10^j + tail under every DefaultRoundingMode (the rounding test matrix, gen_grid.go)
	lg := tailGrid(longJs)
	g.gridRun(len(lg), 0.25, func(i int) {
		v := g.longTailInt(lg[i])
		if g.r.Intn(2) == 0 {
			v.Neg(v)
		}
		for m := 0; m < 6; m++ {
			g.setMode(m)
			g.emit(Ev{"op": "FromInt", "v": bigN(v)})
		}
		if g.r.Intn(3) == 0 {
			g.emit(Ev{"op": "FromRat", "num": bigN(v), "den": bigN(big.NewInt(int64(1 + g.r.Intn(9))))})
		}
		g.setMode(0)
	})
	// rationals in the correctly rounded regime whose inexactness hides far below the guard digit (guard 0, 4, 5, 9 followed
	// by eight or more zeros), both signs, under every DefaultRoundingMode
	g.gridRun(4*2*4, 0.12, func(i int) {
		gd := []int{0, 4, 5, 9}[i%4]
		for try := 0; try < 20; try++ {
			a, b, ok := g.ratFarStickySigned(gd, (i/8)%2 == 1)
			if !ok {
				continue
			}
			if (i/4)%2 == 1 {
				a.Neg(a)
			}
			for m := 0; m < 6; m++ {
				g.setMode(m)
				g.emit(Ev{"op": "FromRat", "num": bigN(a), "den": bigN(b)})
			}
			g.setMode(0)
			return
		}
	})
	// rationals far outside the range and right at its ends (the estimate of the quotient's size from bit lengths decides
	// early; it must not decide wrongly), both signs
	rk := []int{6100, 6111, 6140, 6144, 6145, 6146, 6147, 6150, 6176, 6177, 6178, 6180, 6200, 6210, 6211, 6212, 6213, 6215, 6216, 6220, 6300, 7000, 20000}
	g.gridRun(len(rk)*4, 0.06, func(i int) {
		k := rk[i/4]
		small := big.NewInt(int64(1 + g.r.Intn(999)))
		if i%2 == 1 {
			small = randDigits(g.r, 20+g.r.Intn(30))
		}
		big10 := new(big.Int).Add(pow10(k), big.NewInt(int64(g.r.Intn(7))))
		num, den := small, big10
		if (i/2)%2 == 1 {
			num, den = big10, small
		}
		if g.r.Intn(2) == 0 {
			num = new(big.Int).Neg(num)
		}
		g.setMode(g.r.Intn(6))
		g.emit(Ev{"op": "FromRat", "num": bigN(num), "den": bigN(den)})
		g.setMode(0)
	})
	// integers far beyond the range, up to 140 000 digits (the conversion walks them in 18-digit steps; every counter
	// that grows with the length has to survive): all must come back as the infinity of their sign
	var hugeDigits []int
	for k := 6149; k <= 140000; k += 2971 {
		hugeDigits = append(hugeDigits, k)
	}
	g.gridRun(len(hugeDigits)*2, 0.04, func(i int) {
		v := new(big.Int).Add(pow10(hugeDigits[i/2]), big.NewInt(int64(g.r.Intn(1000))))
		if i%2 == 1 {
			v.Neg(v)
		}
		g.setMode(g.r.Intn(6))
		g.emit(Ev{"op": "FromInt", "v": bigN(v)})
		g.setMode(0)
	})
	i64s := []int64{0, 1, -1, math.MaxInt32, math.MinInt32, math.MaxInt64, math.MinInt64, math.MinInt64 + 1, 1 << 53, -(1 << 62)}
	for !g.w.full() {
		switch g.r.Intn(9) {
		case 0:
			ty := []string{"int64", "int32", "uint64", "uint32"}[g.r.Intn(4)]
			var v *big.Int
			raw := g.r.Uint64()
			if g.r.Intn(3) == 0 {
				raw = uint64(i64s[g.r.Intn(len(i64s))])
			}
			switch ty {
			case "int64":
				v = big.NewInt(int64(raw))
			case "int32":
				v = big.NewInt(int64(int32(raw)))
			case "uint64":
				v = new(big.Int).SetUint64(raw)
			default:
				v = new(big.Int).SetUint64(uint64(uint32(raw)))
			}
			g.emit(Ev{"op": "FromInt64", "ty": ty, "v": bigN(v)})
		case 1:
			g.emit(Ev{"op": "FromInt", "v": bigN(g.bigInt())})
		case 2, 3:
			var x d128.Decimal
			switch g.r.Intn(4) {
			case 0:
				x = g.nearBound()
			case 1:
				x = randAny(g.r)
			case 2: // early-out region around exponent -35/-36 and huge exponents
				x = mk(g.r.Intn(2) == 0, randCoef(g.r), []int{-37, -36, -35, -34, -1, 0, 1, 35, 100, 6111, -6176, -100}[g.r.Intn(12)])
			default:
				x = randFinite(g.r)
			}
			e := Ev{"op": "Int"}
			e.setDec("x", x)
			if g.r.Intn(2) == 0 {
				e["recv"] = bigN(g.bigInt())
			}
			g.emit(e)
			for _, ty := range []string{"int64", "int32", "uint64", "uint32"} {
				if g.r.Intn(2) == 0 {
					te := Ev{"op": "ToInt", "ty": ty}
					te.setDec("x", x)
					g.emit(te)
				}
			}
		case 4:
			x := g.nearBound()
			for _, ty := range []string{"int64", "int32", "uint64", "uint32"} {
				te := Ev{"op": "ToInt", "ty": ty}
				te.setDec("x", x)
				g.emit(te)
			}
		case 5:
			x := randAny(g.r)
			e := Ev{"op": "Rat"}
			e.setDec("x", x)
			if g.r.Intn(2) == 0 {
				e["recvn"] = bigN(g.bigInt())
				e["recvd"] = bigN(big.NewInt(int64(1 + g.r.Intn(1000))))
			}
			g.emit(e)
		default:
			num := g.bigInt()
			den := g.bigInt()
			if g.r.Intn(2) == 0 { // the correctly-rounded regime: at most 34 digits each
				num = randDigits(g.r, 1+g.r.Intn(34))
				den = randDigits(g.r, 1+g.r.Intn(34))
				if g.r.Intn(2) == 0 {
					num.Neg(num)
				}
			}
			if den.Sign() == 0 {
				den = big.NewInt(7)
			}
			g.emit(Ev{"op": "FromRat", "num": bigN(num), "den": bigN(den)})
		}
	}
}

// ---- C09 -------------------------------------------------------------------

func (g *Gen) f64() float64 {
	switch g.r.Intn(8) {
	case 0:
		return []float64{0, math.Copysign(0, -1), math.Inf(1), math.Inf(-1), math.NaN(), math.MaxFloat64, -math.MaxFloat64, math.SmallestNonzeroFloat64,
			0x1p-1022, 0x1.fffffffffffffp-1023, 1, 0.1, 0.5, 1e22, 1e23, 9007199254740993, 5e-324, 1.7976931348623157e308}[g.r.Intn(18)]
	case 1: // every binary exponent
		ex := g.r.Intn(2047)
		var fr uint64
		switch g.r.Intn(4) {
		case 0:
			fr = 0
		case 1:
			fr = 1<<52 - 1
		case 2:
			fr = 1
		default:
			fr = g.r.Uint64() & (1<<52 - 1)
		}
		return math.Float64frombits(uint64(g.r.Intn(2))<<63 | uint64(ex)<<52 | fr)
	case 2: // subnormals
		return math.Float64frombits(uint64(g.r.Intn(2))<<63 | g.r.Uint64()&(1<<52-1)>>uint(g.r.Intn(52)))
	case 3: // small integers and short decimals
		return float64(g.r.Intn(1<<20)) / float64([]int{1, 2, 4, 8, 10, 100, 1000}[g.r.Intn(7)])
	default:
		return math.Float64frombits(g.r.Uint64())
	}
}

func (g *Gen) f32() float32 {
	switch g.r.Intn(4) {
	case 0:
		ex := g.r.Intn(255)
		fr := uint32(g.r.Uint32()) & (1<<23 - 1)
		if g.r.Intn(3) == 0 {
			fr = []uint32{0, 1, 1<<23 - 1}[g.r.Intn(3)]
		}
		return math.Float32frombits(uint32(g.r.Intn(2))<<31 | uint32(ex)<<23 | fr)
	case 1:
		return []float32{0, float32(math.Copysign(0, -1)), float32(math.Inf(1)), float32(math.Inf(-1)), math.MaxFloat32, math.SmallestNonzeroFloat32, 0.1, 1, 16777217}[g.r.Intn(9)]
	default:
		return math.Float32frombits(g.r.Uint32())
	}
}

// decimals in the float range, many near halfway points between adjacent floats
func (g *Gen) decForFloat() d128.Decimal {
	switch g.r.Intn(7) {
	case 0:
		return randAny(g.r)
	case 1: // the exact decimal expansion of a float midpoint, rounded into the format (very close to a tie)
		f := math.Abs(g.f64())
		if math.IsNaN(f) || math.IsInf(f, 0) || f == 0 {
			f = 1.5
		}
		nx := math.Nextafter(f, math.Inf(1))
		if math.IsInf(nx, 0) {
			nx = f
		}
		mid := new(big.Float).SetPrec(2000).SetFloat64(f)
		mid.Add(mid, new(big.Float).SetPrec(2000).SetFloat64(nx))
		mid.Quo(mid, big.NewFloat(2))
		s := mid.Text('e', 33)
		d, err := d128.Parse(s)
		if err != nil {
			return randFinite(g.r)
		}
		if g.r.Intn(2) == 0 {
			d = d.Neg()
		}
		return d
	case 5: // short coefficients exactly at the exponent edges of float64 / float32, in several cohort members
		e := []int{306, 307, 308, 309, 310, -322, -323, -324, -325, -326, 37, 38, 39, -44, -45, -46, -47, 0}[g.r.Intn(18)]
		c := big.NewInt(int64(1 + g.r.Intn(20)))
		return g.cohort(mk(g.r.Intn(2) == 0, c, e))
	case 2: // around the edges of the float range
		return mk(g.r.Intn(2) == 0, randCoef(g.r), []int{-400, -380, -360, -359, -358, -357, -343, -342, -330, -324, -323, -310, 270, 274, 275, 290, 300, 307, 308, 309, 310, 330}[g.r.Intn(22)])
	case 3: // float32 range edges
		return mk(g.r.Intn(2) == 0, randCoef(g.r), []int{-80, -60, -46, -45, -44, -38, 3, 4, 5, 20, 37, 38, 39}[g.r.Intn(13)])
	default:
		return mk(g.r.Intn(2) == 0, randCoef(g.r), g.r.Intn(731)-400)
	}
}

func genC09(g *Gen) {
	g.setMode(0)
	precs := []int{-1, 0, 1, 2, 24, 53, 64, 100, 113, 114, 115, 128, 200, 1000}
	// floats at the boundaries of the integer types and of the float formats themselves, both signs
	fs := []float64{0x1p31, 0x1p31 - 1, 0x1p32, 0x1p32 - 1, 0x1p53, 0x1p53 + 2, 0x1p62, 0x1p63, 0x1p63 - 1024, 0x1p63 + 2048, 0x1p64, 0x1p64 - 2048, 0x1p64 + 4096,
		0x1p127, 0x1p128, 0x1p113, 0x1p112, 1e15, 1e16, 1e22, 1e23, 0x1p-1022, 0x1p-1074, 0x1p-149, 0x1p-126, math.MaxFloat64, math.MaxFloat32, 0.1, 0.5, 1}
	g.gridRun(len(fs)*2, 0.05, func(i int) {
		f := fs[i/2]
		if i%2 == 1 {
			f = -f
		}
		g.emit(Ev{"op": "FromFloat64", "f": f64Rec(f)})
		if math.Abs(f) <= math.MaxFloat32 && float64(float32(f)) == f {
			g.emit(Ev{"op": "FromFloat32", "f": f32Rec(float32(f))})
		}
	})
	// coefficients with the leading digits of a word boundary (2^64 .. 2^256 and their tenths) at magnitudes where the
	// conversion's wide intermediate is about to wrap
	tot := []int{20, 39, 58, 77, 78, 79, 100, 155, 200, 300, 308}
	g.gridRun(len(boundaryWords)*len(tot), 0.12, func(i int) {
		c := g.boundaryCoefOf(boundaryWords[i%len(boundaryWords)])
		x := mk(g.r.Intn(2) == 0, c, tot[i/len(boundaryWords)]-len(c.String()))
		g.un("Float64", x)
		g.un("Float32", x)
	})
	g.encodingGrid(0.1, func(x d128.Decimal) {
		_, _, c, e := unmk(x)
		if (e < -400 || e > 400) && c.Sign() != 0 { // the oracle handles the far ends, but slowly: every eighth of them
			if g.r.Intn(8) != 0 {
				x = mk(g.r.Intn(2) == 0, c, g.r.Intn(17)-8)
			}
		}
		g.un("Float64", x)
		g.un("Float32", x)
	})
	// zeros with every kind of exponent (the range checks of the conversions must look at the coefficient first)
	zexps := []int{-6176, -1000, -400, -359, -358, -325, -46, -1, 0, 1, 38, 39, 308, 309, 310, 400, 1000, 6111}
	g.gridRun(len(zexps)*2, 0.03, func(i int) {
		x := mk(i%2 == 1, new(big.Int), zexps[i/2])
		g.un("Float64", x)
		g.un("Float32", x)
		e := Ev{"op": "Float", "rprec": []int{-1, 24, 53}[g.r.Intn(3)]}
		e.setDec("x", x)
		g.emit(e)
	})
	// decimals that ARE float64 / float32 values, written with a coefficient between 2^53 and 2^64 (integers of 54..63 bits
	// that are multiples of the float spacing, with 0..2 redundant trailing zeros): "exact when representable" on the path
	// where the coefficient fits one word but not the float's 53 bits
	g.gridRun(60, 0.06, func(i int) {
		bits := 54 + i%10
		v := new(big.Int).Lsh(new(big.Int).SetUint64(1<<52|g.r.Uint64()>>12), uint(bits-53))
		z := (i / 10) % 3
		c := new(big.Int).Mul(v, pow10(z))
		if c.BitLen() > 64 {
			c, z = v, 0
		}
		x := mk(i >= 30, c, -z+[]int{0, 0, 1, 5}[g.r.Intn(4)]*(1-min(z, 1)))
		g.un("Float64", x)
		g.un("Float32", x)
	})
	// NaN of both signs and of several payloads through both float constructors
	g.gridRun(4, 0.01, func(i int) {
		bits := []uint64{0x7ff8000000000000, 0xfff8000000000001, 0x7ff0000000000001, 0xffffffffffffffff}[i]
		g.emit(Ev{"op": "FromFloat64", "f": f64Rec(math.Float64frombits(bits))})
		g.emit(Ev{"op": "FromFloat32", "f": f32Rec(math.Float32frombits(uint32(bits>>32) | 1))})
	})
	// big.Float values at the overflow threshold and at the flush threshold of the decimal range: the largest coefficient
	// plus 0.4 / 0.5 / 0.6 / 1 unit, the smallest subnormal times 0.04 .. 1.5, exact in the binary precision given
	g.gridRun(4+6, 0.02, func(i int) {
		var v *big.Int
		sh := 0
		if i < 4 {
			v = new(big.Int).Add(new(big.Int).Mul(cMax, big.NewInt(10)), big.NewInt(int64([]int{4, 5, 6, 10}[i])))
			v.Mul(v, pow10(eMax-1))
		} else {
			// k/100 * 10^-6176 = k * 2^s / (10^6178 * 2^s): use the exactly representable k * 2^-20520 scaled
			v = big.NewInt(int64([]int{4, 9, 10, 50, 99, 150}[i-4]))
			sh = 1
		}
		f := new(big.Float).SetPrec(uint(v.BitLen() + 8)).SetInt(v)
		if sh == 1 {
			// divide by 10^6178 with 400 bits: the quotient is within 2^-399 of k * 10^-6178, far from every threshold used here
			f = new(big.Float).SetPrec(400).Quo(new(big.Float).SetPrec(400).SetInt(v), new(big.Float).SetPrec(21000).SetInt(pow10(6178)))
		}
		if g.r.Intn(2) == 0 {
			f.Neg(f)
		}
		g.emit(Ev{"op": "FromFloat", "f": bigFloatRec(f)})
	})
	// infinities through Float with every kind of receiver (nil, precision 0, a set precision)
	g.gridRun(2*4, 0.01, func(i int) {
		e := Ev{"op": "Float", "rprec": []int{-1, 0, 53, 128}[i/2]}
		e.setDec("x", d128.Inf(1-2*(i%2)))
		g.emit(e)
	})
	// solved hard cases of the correctly rounded conversion: decimals within about 2^-100 ulp of a rounding midpoint, for
	// exponents over the whole span where the power of ten is no longer exact in the working precision
	hexps := []int{1, 2, 5, 10, 20, 27, 28, 40, 55, 56, 60, 70, 82, 83, 84, 90, 100, 120, 150, 200, 250, 300, 400, 600,
		-1, -2, -5, -10, -20, -27, -28, -40, -55, -56, -70, -83, -84, -100, -150, -200, -300, -400, -600}
	hprecs := []int{-1, 128, 114, 200}
	g.gridRun(len(hexps)*len(hprecs), 0.25, func(i int) {
		rp := hprecs[i%len(hprecs)]
		p := rp
		if p < 0 {
			p = 128
		}
		for try := 0; try < 6; try++ {
			if x, ok := g.hardFloatCase(hexps[i/len(hprecs)], p); ok {
				e := Ev{"op": "Float", "rprec": rp}
				e.setDec("x", x)
				g.emit(e)
				return
			}
		}
	})
	g.floatEdgeGrid(0.3, func(x d128.Decimal) {
		g.un("Float64", x)
		g.un("Float32", x)
		if g.r.Intn(4) == 0 {
			e := Ev{"op": "Float", "rprec": []int{-1, 24, 53}[g.r.Intn(3)]}
			e.setDec("x", x)
			g.emit(e)
		}
	})
	for !g.w.full() {
		switch g.r.Intn(8) {
		case 0, 1:
			g.emit(Ev{"op": "FromFloat64", "f": f64Rec(g.f64())})
		case 2:
			g.emit(Ev{"op": "FromFloat32", "f": f32Rec(g.f32())})
		case 3, 4:
			x := g.decForFloat()
			g.un("Float64", x)
			g.un("Float32", x)
		case 5:
			x := g.decForFloat()
			if g.r.Intn(25) == 0 || (g.thorough() && g.r.Intn(6) == 0) {
				x = randAny(g.r) // whole exponent range: 2^20000-sized quantities in the oracle, kept rare
			}
			e := Ev{"op": "Float", "rprec": precs[g.r.Intn(len(precs))]}
			e.setDec("x", x)
			g.emit(e)
		default:
			prec := uint([]int{1, 24, 53, 64, 113, 128, 200, 1000, 5000, 20000}[g.r.Intn(10)])
			if prec > 1000 && !(g.r.Intn(25) == 0 || (g.thorough() && g.r.Intn(6) == 0)) {
				prec = 200
			}
			f := new(big.Float).SetPrec(prec)
			m := new(big.Int).Rand(g.r, new(big.Int).Lsh(big.NewInt(1), prec))
			f.SetInt(m)
			span := 1200
			if g.r.Intn(25) == 0 || (g.thorough() && g.r.Intn(6) == 0) {
				span = 20000
			}
			f.SetMantExp(f, g.r.Intn(2*span+1)-span-int(prec))
			switch g.r.Intn(12) {
			case 0:
				f.SetInf(g.r.Intn(2) == 0)
			case 1:
				f.SetInt64(0)
			}
			if g.r.Intn(2) == 0 {
				f.Neg(f)
			}
			g.emit(Ev{"op": "FromFloat", "f": bigFloatRec(f)})
		}
	}
}
