package main

import (
	"bytes"
	"encoding/json"
	"errors"

	d128 "github.com/woodsbury/decimal128"
)

func jsonErrClass(err error) string {
	if err == nil {
		return "none"
	}
	var uv *json.UnsupportedValueError
	var ut *json.UnmarshalTypeError
	var se *json.SyntaxError
	var me *json.MarshalerError
	switch {
	case errors.As(err, &uv):
		return "unsupported"
	case errors.As(err, &ut):
		return "type"
	case errors.As(err, &se):
		return "syntax"
	case errors.As(err, &me):
		return "marshaler"
	}
	return "other"
}

type jdoc struct {
	A d128.Decimal
	B []d128.Decimal
	C map[string]d128.Decimal
	D *d128.Decimal
}

func init() {
	execTable["MarshalJSON"] = func(e Ev) {
		x := e.dec("x")
		mj, err := x.MarshalJSON()
		e["mj"] = ints(mj)
		if err == nil {
			e["alias"] = scribbleChanges(mj, func() []byte { r, _ := x.MarshalJSON(); return r })
		}
		e["mjerr"] = jsonErrClass(err)
		var back d128.Decimal
		if err == nil {
			uerr := back.UnmarshalJSON(mj)
			e["ujerr"] = jsonErrClass(uerr)
		} else {
			e["ujerr"] = "skipped"
		}
		e.setDec("uj", back)
		doc, derr := json.Marshal(jdoc{A: x, B: []d128.Decimal{x, x}, C: map[string]d128.Decimal{"k": x}, D: &x})
		e["docerr"] = jsonErrClass(derr)
		var out jdoc
		if derr == nil {
			if uerr := json.Unmarshal(doc, &out); uerr != nil {
				e["docerr"] = "unmarshal:" + jsonErrClass(uerr)
			}
		}
		z := d128.Decimal{}
		get := func(ok bool, f func() d128.Decimal) d128.Decimal {
			if ok {
				return f()
			}
			return z
		}
		e.setDec("d1", out.A)
		e.setDec("d2", get(len(out.B) == 2, func() d128.Decimal { return out.B[1] }))
		e.setDec("d3", get(out.C != nil, func() d128.Decimal { return out.C["k"] }))
		e.setDec("d4", get(out.D != nil, func() d128.Decimal { return *out.D }))
	}
	execTable["UnmarshalJSON"] = func(e Ev) {
		d := e.dec("prev")
		in := e.bytes("s")
		cp := append([]byte(nil), in...)
		err := d.UnmarshalJSON(in)
		e.setDec("r", d)
		e["err"] = jsonErrClass(err)
		e["inmod"] = !bytes.Equal(cp, in)
	}
	execTable["UnmarshalDoc"] = func(e Ev) {
		t := string(e.bytes("s"))
		prev := e.dec("prev")
		out := jdoc{A: prev}
		doc := `{"A":` + t + `,"B":[` + t + `,` + t + `],"C":{"k":` + t + `},"D":` + t + `}`
		err := json.Unmarshal([]byte(doc), &out)
		e["err"] = jsonErrClass(err)
		z := prev
		e.setDec("d1", out.A)
		d2, d3, d4, d5 := z, z, z, z
		if len(out.B) == 2 {
			d2, d3 = out.B[0], out.B[1]
		}
		if v, ok := out.C["k"]; ok {
			d4 = v
		}
		if out.D != nil {
			d5 = *out.D
		}
		if err != nil { // partial decoding is not inspected
			d2, d3, d4, d5 = out.A, out.A, out.A, out.A
		}
		e.setDec("d2", d2)
		e.setDec("d3", d3)
		e.setDec("d4", d4)
		e.setDec("d5", d5)
	}
	execTable["Compose"] = func(e Ev) {
		d := e.dec("prev")
		sig := e.bytes("sig")
		cp := append([]byte(nil), sig...)
		err := d.Compose(byte(e.int("form")), e.bool("neg"), sig, int32(e.int("exp")))
		e.setDec("r", d)
		e["err"] = errStr(err)
		if err == nil {
			e["err"] = "none"
		}
		e["inmod"] = !bytes.Equal(cp, sig)
	}
	execTable["Decompose"] = func(e Ev) {
		x := e.dec("x")
		var buf []byte
		bc := e.int("bufcap")
		if bc >= 0 {
			buf = make([]byte, bc/2, bc)
			for i := range buf {
				buf[i] = 0xa5
			}
		}
		form, neg, sig, exp := x.Decompose(buf)
		e["form"] = int(form)
		e["neg"] = neg
		e["sig"] = ints(sig)
		e["exp"] = int(exp)
		// the visible part of the caller's buffer must not be disturbed unless it was handed back as the result
		ok := true
		if bc >= 0 && bc < 16 {
			for _, b := range buf {
				if b != 0xa5 {
					ok = false
				}
			}
		}
		e["bufok"] = ok
		var back d128.Decimal
		err := back.Compose(form, neg, sig, exp)
		e.setDec("back", back)
		e["backerr"] = "none"
		if err != nil {
			e["backerr"] = err.Error()
		}
	}
}
