package main

import (
	"math"
	"math/big"

	d128 "github.com/woodsbury/decimal128"
)

func (g *Gen) un(op string, x d128.Decimal) Ev {
	e := Ev{"op": op}
	e.setDec("x", x)
	return g.emit(e)
}

func (g *Gen) bin2(op string, x, y d128.Decimal) Ev {
	e := Ev{"op": op}
	e.setDec("x", x)
	e.setDec("y", y)
	return g.emit(e)
}

// ---- C03: QuoRem -----------------------------------------------------------

func (g *Gen) quoRemPair() (x, y d128.Decimal) {
	c1, c2 := randCoef(g.r), randCoef(g.r)
	if c2.Sign() == 0 && g.r.Intn(5) != 0 {
		c2 = big.NewInt(int64(1 + g.r.Intn(1000)))
	}
	e2 := randExp(g.r)
	var gap int
	switch g.r.Intn(10) {
	case 0, 1, 2, 3:
		gap = g.r.Intn(41)
	case 4, 5:
		gap = 41 + g.r.Intn(360)
	case 6:
		gap = []int{1000, 3000, 6000, 12000, 12287}[g.r.Intn(5)]
		if g.tier != "thorough" && gap > 3000 {
			gap = 3000
		}
	case 7:
		gap = -g.r.Intn(40)
	default:
		gap = g.r.Intn(80) - 20
	}
	e1 := e2 + gap
	if e1 > eMax {
		e1 = eMax
		e2 = clampExp(e1 - gap)
	}
	if e1 < eMin {
		e1 = eMin
	}
	switch g.r.Intn(6) {
	case 0: // exact multiple
		k := randDigits(g.r, 1+g.r.Intn(10))
		c2 = randDigits(g.r, 1+g.r.Intn(20))
		c1 = new(big.Int).Mul(c2, k)
	case 1: // just below / above a multiple
		k := randDigits(g.r, 1+g.r.Intn(10))
		c2 = randDigits(g.r, 2+g.r.Intn(20))
		c1 = new(big.Int).Mul(c2, k)
		c1.Add(c1, big.NewInt(int64(g.r.Intn(3)-1)))
	case 2: // one-word operands
		c1 = new(big.Int).SetUint64(g.r.Uint64() >> uint(g.r.Intn(60)))
		c2 = new(big.Int).SetUint64(g.r.Uint64()>>uint(g.r.Intn(60)) | 1)
	}
	if c1.Sign() < 0 {
		c1.Neg(c1)
	}
	if c1.Cmp(cMax) > 0 {
		c1 = new(big.Int).Set(cMax)
	}
	if c2.Cmp(cMax) > 0 {
		c2 = new(big.Int).Set(cMax)
	}
	return mk(g.r.Intn(2) == 0, c1, e1), mk(g.r.Intn(2) == 0, c2, e2)
}

// quoRemWidePartial solves for the rare step of the word-by-word division in which one partial quotient reaches 2^64:
// the divisor o has 20 digits and fits one word; the dividend, scaled by the implementation to 38 digits, is o*Q + R with
// a first quotient Q of 19 digits below 3.32e18 and a first remainder R between 0.185 o and 3.31e18, so that both can be
// scaled by 10^20 and R*10^20 / o >= 2^64; at least 20 quotient digits are still to come.
func (g *Gen) quoRemWidePartial() (x, y d128.Decimal) {
	bi := func(s string) *big.Int { v, _ := new(big.Int).SetString(s, 10); return v }
	o := new(big.Int).Add(bi("11000000000000000000"), new(big.Int).Rand(g.r, bi("6900000000000000000")))
	qlo := new(big.Int).Add(new(big.Int).Div(new(big.Int).Mul(bi("333"), pow10(35)), o), big.NewInt(1))
	qhi := bi("3310000000000000000")
	q := new(big.Int).Add(qlo, new(big.Int).Rand(g.r, new(big.Int).Sub(qhi, qlo)))
	rlo := new(big.Int).Div(new(big.Int).Mul(o, big.NewInt(185)), big.NewInt(1000))
	rhi := bi("3300000000000000000")
	if rhi.Cmp(o) > 0 {
		rhi = new(big.Int).Sub(o, big.NewInt(20000))
	}
	r := new(big.Int).Add(rlo, new(big.Int).Rand(g.r, new(big.Int).Sub(rhi, rlo)))
	k := 4 + g.r.Intn(3)
	n := new(big.Int).Add(new(big.Int).Mul(o, q), r)
	m := new(big.Int).Mod(n, pow10(k))
	if m.Sign() != 0 {
		n.Add(n, new(big.Int).Sub(pow10(k), m))
	}
	xc := new(big.Int).Div(n, pow10(k))
	e := g.r.Intn(11) - 5
	return mk(g.r.Intn(2) == 0, xc, e+k+20+g.r.Intn(9)), mk(g.r.Intn(2) == 0, o, e)
}

func genC03(g *Gen) {
	g.setMode(0)
	g.wordQuoRemGrid(0.15)
	g.relGrid(0.1, func(x, y d128.Decimal, kind string) {
		g.bin("QuoRem", x, y, g.r.Intn(6))
		g.bin("QuoRem", y, x, g.r.Intn(6))
	})
	g.pairGrid(0.35, func(x, y d128.Decimal) {
		g.bin("QuoRem", x, y, g.r.Intn(6))
	})
	for !g.w.full() {
		var x, y d128.Decimal
		k := 2
		switch g.r.Intn(16) {
		case 0:
			x, y = randAny(g.r), randAny(g.r)
		case 1:
			x, y = randFinite(g.r), randFinite(g.r)
		case 2, 3, 4, 5, 6:
			x, y = g.quoRemStructured()
			k = 6
		case 7, 8:
			// a divisor of exactly 20 digits that still fits one 64-bit word (10^19 .. 2^64) under a long quotient: the
			// partial quotients of the word-by-word division can then reach 2^64
			d20 := new(big.Int).Add(pow10(19), new(big.Int).Rand(g.r, new(big.Int).Sub(new(big.Int).Lsh(big.NewInt(1), 64), pow10(19))))
			e := g.r.Intn(11) - 5
			y = mk(g.r.Intn(2) == 0, d20, e)
			x = mk(g.r.Intn(2) == 0, randDigits(g.r, 20+g.r.Intn(15)), e+20+g.r.Intn(21))
			if g.r.Intn(4) != 0 {
				x, y = g.quoRemWidePartial()
			}
			k = 6
		default:
			x, y = g.quoRemPair()
		}
		if k == 6 {
			g.allModes("QuoRem", x, y)
		} else {
			g.someModes("QuoRem", x, y, 2)
		}
	}
}

// ---- C04: comparisons -------------------------------------------------------

// values close to x: same value in another cohort member, +-1 unit in the last aligned digit,
// a difference only in a digit far below, far away
func (g *Gen) near(x d128.Decimal) d128.Decimal {
	kind, neg, c, e := unmk(x)
	if kind != 0 {
		return randAny(g.r)
	}
	switch g.r.Intn(8) {
	case 0:
		return g.cohort(x)
	case 1, 2: // +-1 in the last digit of the maximal-digit form
		c2, e2 := new(big.Int).Set(c), e
		for e2 > eMin {
			n := new(big.Int).Mul(c2, ten)
			if n.Cmp(cMax) > 0 {
				break
			}
			c2, e2 = n, e2-1
		}
		c2.Add(c2, big.NewInt(int64(2*g.r.Intn(2)-1)))
		if c2.Sign() < 0 || c2.Cmp(cMax) > 0 {
			return g.cohort(x)
		}
		return g.cohort(mk(neg, c2, e2))
	case 3: // difference in a digit below x's quantum: x + tiny where representable
		gp := 1 + g.r.Intn(40)
		if e-gp < eMin || c.Sign() == 0 {
			return g.cohort(x)
		}
		n := new(big.Int).Mul(c, pow10(gp))
		n.Add(n, big.NewInt(int64(2*g.r.Intn(2)-1)))
		if n.Cmp(cMax) > 0 || n.Sign() < 0 {
			// not representable: compare against a short number at a distant exponent instead
			return mk(neg, randDigits(g.r, 1+g.r.Intn(3)), clampExp(e+len(c.String())-1-g.r.Intn(3)))
		}
		return mk(neg, n, e-gp)
	case 4:
		return x.Neg()
	case 5: // same digits, exponent shifted by a strategy-switch gap
		gp := []int{1, 8, 16, 18, 19, 20, 26, 27, 28, 34, 35, 36, 40}[g.r.Intn(13)]
		if g.r.Intn(2) == 0 {
			gp = -gp
		}
		return mk(neg, c, clampExp(e+gp))
	case 6:
		return mk(neg, randCoef(g.r), clampExp(e+g.r.Intn(81)-40))
	default:
		return randAny(g.r)
	}
}

// wordCollision: a pair that a comparison confuses if it drops or mixes the 64-bit words of a coefficient:
// the finer operand is (low word | high word | wrapped product of the coarser one) times 10^gap
func (g *Gen) wordCollision() (x, y d128.Decimal, ok bool) {
	top := int64(1 + g.r.Intn(5))
	low := int64(1 + g.r.Intn(999))
	if g.r.Intn(2) == 0 {
		low = int64(g.r.Uint32())
	}
	c1 := new(big.Int).Add(new(big.Int).Lsh(big.NewInt(top), 64), big.NewInt(low))
	gap := 1 + g.r.Intn(33)
	var base *big.Int
	if g.r.Intn(3) == 0 {
		// both coefficients fit one word: c1 * 10^gap wrapped at 64 bits (gap 1..19), c1 drawn so that the product does wrap
		gap = 1 + g.r.Intn(19)
		if g.r.Intn(2) == 0 {
			gap = 1 + g.r.Intn(7)
		}
		two64 := new(big.Int).Lsh(big.NewInt(1), 64)
		lo := new(big.Int).Div(two64, pow10(gap))
		c1 = new(big.Int).Add(lo, new(big.Int).Rand(g.r, new(big.Int).Sub(two64, lo)))
		c1.Add(c1, big.NewInt(1))
		if c1.Cmp(two64) >= 0 {
			c1.Sub(two64, big.NewInt(1))
		}
		base = new(big.Int).Mod(new(big.Int).Mul(c1, pow10(gap)), two64)
		if base.Sign() == 0 {
			return x, y, false
		}
		e1 := g.r.Intn(200) - 100
		neg := g.r.Intn(2) == 0
		return mk(neg, c1, clampExp(e1+gap)), mk(neg, base, clampExp(e1)), true
	}
	switch g.r.Intn(3) {
	case 0:
		base = big.NewInt(low)
	case 1:
		base = big.NewInt(top)
	default:
		base = new(big.Int).Mod(new(big.Int).Mul(c1, pow10(gap)), new(big.Int).Lsh(big.NewInt(1), 128)) // c1 * 10^gap wrapped at 128 bits
		if base.Cmp(cMax) > 0 {
			base = new(big.Int).Rsh(base, 15)
		}
		e1 := g.r.Intn(200) - 100
		if base.Sign() == 0 {
			return x, y, false
		}
		neg := g.r.Intn(2) == 0
		return mk(neg, c1, clampExp(e1+gap)), mk(neg, base, clampExp(e1)), true
	}
	c2 := new(big.Int).Mul(base, pow10(gap))
	if c2.Cmp(cMax) > 0 {
		return x, y, false
	}
	e1 := randExp(g.r)
	if e1-gap < eMin {
		e1 = eMin + gap
	}
	neg := g.r.Intn(2) == 0
	return mk(neg, c1, e1), mk(neg, c2, e1-gap), true
}

func (g *Gen) cmpAll(x, y d128.Decimal) {
	g.bin2("Cmp", x, y)
	g.bin2("Cmp", y, x)
	g.bin2("CmpAbs", x, y)
	g.bin2("Equal", x, y)
	g.bin2("Compare", x, y)
	if g.r.Intn(2) == 0 {
		g.bin2("Min", x, y)
		g.bin2("Max", x, y)
	}
}

func genC04(g *Gen) {
	g.setMode(0)
	g.encodingGrid(0.08, func(x d128.Decimal) {
		g.un("IsZero", x)
		g.un("Sign", x)
		g.un("Signbit", x)
		z := mk(g.r.Intn(2) == 0, new(big.Int), randExp(g.r))
		g.bin2("Cmp", x, z)
		g.bin2("Cmp", z, x)
		g.bin2("CmpAbs", z, x)
		g.bin2("Equal", z, x)
		g.bin2("Max", z, x)
		g.bin2("Min", x, z)
	})
	g.cmpTailGrid(0.15, func(x, y d128.Decimal) {
		g.bin2("Cmp", x, y)
		g.bin2("Cmp", y, x)
		g.bin2("CmpAbs", x, y)
		g.bin2("CmpAbs", y, x)
		g.bin2("Equal", x, y)
		g.bin2("Compare", y, x)
		g.bin2("Min", x, y)
		g.bin2("Max", y, x)
	})
	g.bitGrid(0.06, func(x d128.Decimal) {
		g.un("IsZero", x)
		g.un("Sign", x)
		z := mk(g.r.Intn(2) == 0, new(big.Int), randExp(g.r))
		g.bin2("Cmp", z, x)
		g.bin2("Cmp", x, z)
		g.bin2("CmpAbs", z, x)
		g.bin2("Equal", z, x)
		g.bin2("Compare", z, x)
		g.bin2("Max", z, x)
		g.bin2("Min", x, z)
		g.bin2("Equal", x, g.variant(x))
	})
	g.relGrid(0.06, func(x, y d128.Decimal, kind string) {
		g.bin2("Cmp", x, y)
		g.bin2("Cmp", y, x)
		g.bin2("CmpAbs", x, y)
		g.bin2("CmpAbs", y, x)
		g.bin2("Equal", x, y)
		g.bin2("Compare", y, x)
		g.bin2("Min", x, y)
		g.bin2("Max", y, x)
	})
	g.wordCmpGrid(0.1, func(x, y d128.Decimal) {
		g.bin2("Cmp", x, y)
		g.bin2("Cmp", y, x)
		g.bin2("CmpAbs", y, x)
		g.bin2("Equal", x, y)
		g.bin2("Compare", y, x)
		g.bin2("Max", x, y)
		g.bin2("Min", y, x)
	})
	g.pairGrid(0.4, func(x, y d128.Decimal) {
		g.bin2("Cmp", x, y)
		g.bin2("CmpAbs", x, y)
		g.bin2("CmpAbs", y, x)
		g.bin2("Equal", x, y)
		g.bin2("Compare", x, y)
		if g.r.Intn(2) == 0 {
			g.bin2("Min", x, y)
			g.bin2("Max", x, y)
		}
	})
	for !g.w.full() {
		if g.r.Intn(6) == 0 {
			if a, b, ok := g.wordCollision(); ok {
				g.cmpAll(a, b)
				g.cmpAll(b, a)
			}
			continue
		}
		x := randAny(g.r)
		if g.r.Intn(3) == 0 {
			x = mk(g.r.Intn(2) == 0, g.fullCoef(), randExp(g.r))
		}
		if g.r.Intn(8) == 0 {
			x = mk(g.r.Intn(2) == 0, g.boundaryCoef(), randExp(g.r))
		}
		// a cluster of near-equal values: every ordered pair is compared (transitivity and antisymmetry are
		// consequences of each answer being the exact order, which the specification checks per step)
		cl := []d128.Decimal{x}
		n := 2 + g.r.Intn(3)
		for i := 0; i < n; i++ {
			cl = append(cl, g.near(cl[g.r.Intn(len(cl))]))
		}
		for i := range cl {
			for j := range cl {
				if i < j || g.r.Intn(4) == 0 {
					g.cmpAll(cl[i], cl[j])
				}
			}
			g.un("IsZero", cl[i])
			g.un("Sign", cl[i])
			if g.r.Intn(3) == 0 {
				g.un("IsNaN", cl[i])
				g.un("Signbit", cl[i])
				e := Ev{"op": "IsInf", "sgn": g.r.Intn(3) - 1}
				e.setDec("x", cl[i])
				g.emit(e)
				g.un("Neg", cl[i])
				g.un("Abs", cl[i])
			}
		}
	}
}

// ---- C08: Round / Ceil / Floor / Trunc --------------------------------------

func (g *Gen) quant(op string, x d128.Decimal, dp int, m int) {
	e := Ev{"op": op}
	if op == "Round" {
		e["wm"] = true
		e["m"] = m
	}
	e.setDec("x", x)
	setInt(e, "dp", dp)
	g.emit(e)
}

func genC08(g *Gen) {
	g.setMode(0)
	// the rounding test matrix through Round (six modes), Ceil and Floor: exactly j digits are cut
	var qjs []int
	for j := 1; j <= 34; j++ {
		qjs = append(qjs, j)
	}
	qg := tailGrid(qjs)
	g.gridRun(len(qg), 0.3, func(i int) {
		t := qg[i]
		nk := 34 - t.j
		c := g.tailValue(t)
		if nk > 0 {
			k := randDigits(g.r, 1+g.r.Intn(nk))
			if g.r.Intn(3) == 0 { // an even / odd last kept digit on demand, a carry chain of nines
				k = new(big.Int).Sub(pow10(1+g.r.Intn(nk)), big.NewInt(int64(1+g.r.Intn(2))))
			}
			c.Add(c, new(big.Int).Mul(k, pow10(t.j)))
		}
		if c.Sign() == 0 {
			return
		}
		e := g.r.Intn(41) - 20 - t.j
		if g.r.Intn(6) == 0 {
			e = eMin + g.r.Intn(eMax-eMin-40)
		}
		x := mk(g.r.Intn(2) == 0, c, e)
		dp := -(e + t.j)
		for m := 0; m < 6; m++ {
			g.quant("Round", x, dp, m)
		}
		g.quant("Ceil", x, dp, 0)
		g.quant("Floor", x, dp, 0)
	})
	g.wordQuantGrid(0.18)
	g.encodingGrid(0.1, func(x d128.Decimal) {
		_, _, _, xe := unmk(x)
		dp := -xe - 1 + g.r.Intn(3)
		g.quant("Round", x, dp, g.r.Intn(6))
		g.quant([]string{"Ceil", "Floor"}[g.r.Intn(2)], x, dp-g.r.Intn(36), 0)
	})
	dpEdges := []int{-7000, -6212, -6211, -6177, -6176, -6175, -6147, -6146, -6145, -6112, -6111, -6110, -6077, -6076, -40, -35, -34, -1, 0, 1, 34, 35, 36,
		6110, 6111, 6112, 6140, 6141, 6142, 6175, 6176, 6177, 6210, 6211, 6212, 7000, 32767, 32768, -32768, -32769, 65536, -65536,
		math.MaxInt32, math.MinInt32, math.MaxInt64, math.MinInt64, math.MinInt64 + 1, math.MaxInt64 - 1}
	for !g.w.full() {
		var x d128.Decimal
		switch g.r.Intn(7) {
		case 0:
			x = randAny(g.r)
		case 1:
			x = mk(g.r.Intn(2) == 0, g.fullCoef(), randExp(g.r))
		case 6:
			x = g.topValue()
		default:
			x = randFinite(g.r)
		}
		_, _, c, e := unmk(x)
		var dp int
		nd := 1
		if c != nil && c.Sign() != 0 {
			nd = len(c.String())
		}
		switch g.r.Intn(9) {
		case 8: // quanta just above the largest exponent
			dp = -(eMax + 1 + g.r.Intn(36))
		case 0:
			dp = dpEdges[g.r.Intn(len(dpEdges))]
		case 1:
			dp = g.r.Intn(14001) - 7000
		default: // drop k digits, k around 0..nd+2
			k := g.r.Intn(nd+4) - 1
			dp = -(e + k)
		}
		switch g.r.Intn(4) {
		case 0: // make the dropped part a tie / near-tie
			if c != nil && nd > 1 {
				k := 1 + g.r.Intn(nd-1)
				kept := new(big.Int).Div(c, pow10(k))
				t := g.tail(k)
				c2 := new(big.Int).Add(new(big.Int).Mul(kept, pow10(k)), t)
				if c2.Cmp(cMax) <= 0 {
					x = mk(x.Signbit(), c2, e)
					dp = -(e + k)
				}
			}
		}
		for m := 0; m < 6; m++ {
			g.quant("Round", x, dp, m)
		}
		g.quant("Ceil", x, dp, 0)
		g.quant("Floor", x, dp, 0)
		if g.r.Intn(4) == 0 {
			for _, op := range []string{"PkgRound", "PkgTrunc", "PkgCeil", "PkgFloor"} {
				g.un(op, x)
			}
		}
	}
}

// ---- C11: New / Ldexp / Frexp ----------------------------------------------

func genC11(g *Gen) {
	g.setMode(0)
	sigs := []int64{0, 1, -1, 9, 10, 99, 999999999, 1000000000, math.MaxInt32, math.MinInt32, math.MaxInt64, math.MinInt64, math.MinInt64 + 1,
		9999999999999999, 999999999999999999, 1000000000000000000, 5000000000000000000, -5000000000000000001, 1 << 53, 1<<62 + 1}
	expEdges := []int{math.MinInt64, math.MinInt64 + 1, math.MinInt32, -70000, -7000, -6300, 6300, 7000, 70000, math.MaxInt32, math.MaxInt64 - 1, math.MaxInt64,
		32767, 32768, -32768, -32769, 65535, 65536, -65536}
	// New and Ldexp below the smallest exponent: (digits dropped) x (guard digit) x (sticky position), six default modes
	var njs []int
	for j := 1; j <= 18; j++ {
		njs = append(njs, j)
	}
	ng := tailGrid(njs)
	g.gridRun(len(ng), 0.6, func(i int) {
		t := ng[i]
		nk := g.r.Intn(19 - t.j) // digits kept above the dropped ones (possibly none)
		v := new(big.Int)
		if nk > 0 {
			v.Mul(randDigits(g.r, nk), pow10(t.j))
			if g.r.Intn(3) == 0 { // an even / odd last kept digit on demand
				v.Mul(big.NewInt(int64(2*g.r.Intn(5)+g.r.Intn(2))), pow10(t.j))
			}
		}
		v.Add(v, g.tailValue(t))
		if !v.IsInt64() || v.Sign() == 0 {
			return
		}
		sig := v.Int64()
		if g.r.Intn(2) == 0 {
			sig = -sig
		}
		for m := 0; m < 6; m++ {
			g.setMode(m)
			e := Ev{"op": "New", "sig": bigNInt(sig)}
			setInt(e, "exp", eMin-t.j)
			g.emit(e)
			if m%2 == 0 {
				le := Ev{"op": "Ldexp"}
				le.setDec("x", mk(sig < 0, new(big.Int).Abs(v), 0))
				setInt(le, "exp", eMin-t.j)
				g.emit(le)
			}
		}
		g.setMode(0)
	})
	// significands that are decimal prefixes of 2^110 = (largest coefficient + 1) / 10, +-1, at the exponents where the
	// result has to be clamped into the largest exponent: the last multiplication by ten that still fits
	{
		top := new(big.Int).Lsh(big.NewInt(1), 110).String()
		g.gridRun(19*3*3, 0.08, func(i int) {
			n := 1 + i%19
			p, _ := new(big.Int).SetString(top[:n], 10)
			p.Add(p, big.NewInt(int64((i/19)%3-1)))
			if p.Sign() <= 0 || !p.IsInt64() {
				return
			}
			sig := p.Int64()
			if g.r.Intn(2) == 0 {
				sig = -sig
			}
			e := Ev{"op": "New", "sig": bigNInt(sig)}
			setInt(e, "exp", eMax+35-len(p.String())+(i/57)-1)
			g.emit(e)
		})
	}
	// Frexp for every digit count (smallest, largest and a drawn coefficient of that length) at seven places of the exponent
	// range: fraction and exponent are two results of one call and must fit together for each length
	g.gridRun(35*3*7, 0.1, func(i int) {
		n := 1 + i%35
		var c *big.Int
		switch (i / 35) % 3 {
		case 0:
			c = pow10(n - 1)
		case 1:
			c = new(big.Int).Sub(pow10(n), big.NewInt(1))
		default:
			c = randDigits(g.r, n)
		}
		if c.Cmp(cMax) > 0 {
			c = new(big.Int).Set(cMax)
		}
		e := []int{eMin, eMin + 1, -n, -n + 1, 0, eMax - 1, eMax}[i/105]
		x := mk(g.r.Intn(2) == 0, c, e)
		g.un("Frexp", x)
		if i%5 == 0 {
			g.un("Frexp", g.variant(x))
		}
	})
	// Ldexp landing exactly k places beyond either end of the exponent range, k = 0..36, for coefficients of every length
	// class: at the top the coefficient is padded with zeros while it fits, at the bottom digits are rounded away
	g.gridRun(2*37*4, 0.12, func(i int) {
		k := (i / 2) % 37
		top := i%2 == 1
		var c *big.Int
		switch i / 74 {
		case 0:
			c = big.NewInt(int64(1 + g.r.Intn(9)))
			if i%3 != 0 { // scaling by 10^k (k a step size of the clamping loop) wraps a word to a small value
				c = g.wrapMultipleOf(128, []int{1, 2, 4, 8, 8, 19}[(i/2)%6])
			}
		case 1:
			c = randDigits(g.r, min(34, max(1, 35-k+g.r.Intn(3)-1)))
		case 2:
			c = g.fullCoef()
		default:
			c = randDigits(g.r, 1+g.r.Intn(34))
		}
		if c.Sign() == 0 {
			c = big.NewInt(1)
		}
		xe := g.r.Intn(81) - 40
		if g.r.Intn(4) == 0 {
			xe = randExp(g.r)
		}
		sh := eMin - k - xe
		if top {
			sh = eMax + k - xe
		}
		for m := 0; m < 6; m += 1 + g.r.Intn(2) {
			g.setMode(m)
			le := Ev{"op": "Ldexp"}
			le.setDec("x", mk(g.r.Intn(2) == 0, c, xe))
			setInt(le, "exp", sh)
			g.emit(le)
		}
		g.setMode(0)
	})
	for !g.w.full() {
		// New
		var sig int64
		switch g.r.Intn(4) {
		case 0:
			sig = sigs[g.r.Intn(len(sigs))]
		case 1:
			sig = int64(g.r.Uint64())
		default:
			sig = randDigits(g.r, 1+g.r.Intn(19)).Int64()
			if g.r.Intn(2) == 0 {
				sig = -sig
			}
		}
		var exp int
		switch g.r.Intn(6) {
		case 0:
			exp = expEdges[g.r.Intn(len(expEdges))]
		case 1:
			exp = eMin - 40 + g.r.Intn(81)
		case 2:
			exp = eMax - 40 + g.r.Intn(86)
		case 3:
			exp = g.r.Intn(14001) - 7000
		default:
			exp = g.r.Intn(81) - 40
		}
		e := Ev{"op": "New", "sig": bigNInt(sig)}
		setInt(e, "exp", exp)
		g.emit(e)

		// Ldexp / Frexp
		x := randAny(g.r)
		switch g.r.Intn(4) {
		case 0:
			x = mk(g.r.Intn(2) == 0, g.fullCoef(), randExp(g.r))
		case 1:
			x = mk(g.r.Intn(2) == 0, coefAtoms[g.r.Intn(len(coefAtoms))], randExp(g.r))
		case 2:
			x = mk(g.r.Intn(2) == 0, g.boundaryCoef(), g.r.Intn(81)-40)
		}
		_, _, _, xe := unmk(x)
		var sh int
		switch g.r.Intn(7) {
		case 0:
			sh = expEdges[g.r.Intn(len(expEdges))]
		case 1:
			sh = g.r.Intn(81) - 40
		case 2: // land near the bottom
			sh = eMin - xe - 40 + g.r.Intn(50)
		case 3: // land near the top
			sh = eMax - xe - 10 + g.r.Intn(50)
		case 4:
			sh = []int{6111, 6112, 6150, 6151, 6176, 6177, 6215, 12200, 12287, 12288, 12330, -6111, -6176, -6177, -6215, -12287, -12288, -12330}[g.r.Intn(18)]
		default:
			sh = g.r.Intn(24601) - 12300
		}
		le := Ev{"op": "Ldexp"}
		le.setDec("x", x)
		setInt(le, "exp", sh)
		g.emit(le)
		g.un("Frexp", x)
	}
}

// ---- C12: binary form --------------------------------------------------------

func genC12(g *Gen) {
	g.setMode(0)
	for !g.w.full() {
		var x d128.Decimal
		switch g.r.Intn(5) {
		case 4: // the all-zero pattern and its neighbours
			x = rawDec(uint64(g.r.Intn(2))<<63, uint64(g.r.Intn(2)))
		case 0: // walk the 17-bit combination field
			comb := uint64(g.r.Intn(1 << 17))
			hi := uint64(g.r.Intn(2))<<63 | comb<<46
			lo := uint64(0)
			switch g.r.Intn(4) {
			case 1:
				hi |= 1<<46 - 1
				lo = ^uint64(0)
			case 2:
				lo = 1
			case 3:
				hi |= g.r.Uint64() & (1<<46 - 1)
				lo = g.r.Uint64()
			}
			x = rawDec(hi, lo)
		case 1:
			x = rawDec(g.r.Uint64(), g.r.Uint64())
		default:
			x = randAny(g.r)
		}
		g.un("MarshalBinary", x)
		// the library's own view of the same value, in the same session
		g.bin2("Cmp", x, x.Canonical())
		g.un("Canonical", x)
		b := bitsOf(x)
		prev := randAny(g.r)
		var in []byte
		switch g.r.Intn(6) {
		case 0:
			in = b[:g.r.Intn(16)]
		case 1:
			extra := 1 + g.r.Intn(48)
			if g.r.Intn(3) == 0 { // lengths that equal 16 modulo a power of two (a length kept in a narrow integer type), and near them
				extra = []int{16, 32, 48, 112, 240, 256, 256, 257, 512, 768, 4096, 4096 + 256}[g.r.Intn(12)]
				if g.r.Intn(40) == 0 {
					extra = 65536
				}
			}
			in = append(append([]byte{}, b...), make([]byte, extra)...)
			if g.r.Intn(2) == 0 {
				g.r.Read(in[16:])
			}
		case 2:
			in = []byte{}
		default:
			in = b
		}
		e := Ev{"op": "UnmarshalBinary", "bs": ints(in)}
		e.setDec("prev", prev)
		g.emit(e)
	}
}

// ---- C19: encoding independence, Canonical -------------------------------------

// variants of a value in other encodings: cohort members, zeros with other exponents,
// NaNs with other payloads, infinities with garbage bits
func (g *Gen) variant(d d128.Decimal) d128.Decimal {
	kind, neg, c, _ := unmk(d)
	switch kind {
	case 1:
		hi := uint64(0x7800_0000_0000_0000) | g.r.Uint64()&0x03ff_ffff_ffff_ffff
		if neg {
			hi |= 1 << 63
		}
		return rawDec(hi, g.r.Uint64())
	case 2:
		return randSpecialNaN(g)
	}
	if c.Sign() == 0 {
		return mk(neg, c, randExp(g.r))
	}
	return g.cohort(d)
}

func randSpecialNaN(g *Gen) d128.Decimal {
	hi := uint64(0x7c00_0000_0000_0000) | g.r.Uint64()&0x83ff_ffff_ffff_ffff
	return rawDec(hi, g.r.Uint64())
}

// a value with a large cohort: few digits, exponent anywhere
func (g *Gen) cohortRich() d128.Decimal {
	switch g.r.Intn(6) {
	case 0:
		return randAny(g.r)
	case 1:
		return mk(g.r.Intn(2) == 0, new(big.Int), randExp(g.r))
	default:
		n := 1 + g.r.Intn(12)
		c := randDigits(g.r, n)
		c.Mul(c, pow10(g.r.Intn(35-n)))
		return mk(g.r.Intn(2) == 0, c, randExp(g.r))
	}
}

func genC19(g *Gen) {
	g.setMode(0)
	g.onesGrid(0.12)
	g.powPaddedIntGrid(0.07)
	g.cmpTailGrid(0.12, func(x, y d128.Decimal) {
		for _, xv := range []d128.Decimal{x, g.variant(x)} {
			g.bin2("Cmp", xv, y)
			g.bin2("Cmp", y, xv)
			g.bin2("CmpAbs", xv, y)
			g.bin2("CmpAbs", y, xv)
			g.bin2("Compare", xv, y)
			g.bin2("Max", y, xv)
		}
	})
	// the quantisation test matrix on the shortest encoding AND with one to three zeros appended to the coefficient (the same
	// value, the same dp): digits are cut off in steps, and an appended zero shifts every digit into another step
	{
		var qjs []int
		for j := 1; j <= 12; j++ {
			qjs = append(qjs, j)
		}
		qg := tailGrid(qjs)
		g.gridRun(len(qg), 0.15, func(i int) {
			t := qg[i]
			c := g.tailValue(t)
			c.Add(c, new(big.Int).Mul(randDigits(g.r, 1+g.r.Intn(10)), pow10(t.j)))
			e := g.r.Intn(21) - 10 - t.j
			neg := g.r.Intn(2) == 0
			dp := -(e + t.j)
			m := g.r.Intn(6)
			for z := 0; z <= 3; z++ {
				x := mk(neg, new(big.Int).Mul(c, pow10(z)), e-z)
				g.quant("Round", x, dp, m)
				if z == 1 {
					g.quant("Ceil", x, dp, 0)
					g.quant("Floor", x, dp, 0)
				}
			}
		})
	}
	g.encodingGrid(0.08, func(x d128.Decimal) {
		g.un("Canonical", x)
		g.un([]string{"Sqrt", "Cbrt", "String", "Frexp", "MarshalJSON", "IsZero", "Sign", "Float64", "Int"}[g.r.Intn(9)], x)
		g.bin([]string{"Add", "Mul", "Quo", "QuoRem"}[g.r.Intn(4)], x, g.variant(x), g.r.Intn(6))
	})
	// the same sum with the vanishing operand in three encodings, both operand orders
	g.vanishGrid(0.25, func(x, y d128.Decimal) {
		m := g.r.Intn(6)
		op := g.addSubOp()
		for _, yv := range []d128.Decimal{y, g.variant(y), g.variant(y)} {
			if g.r.Intn(2) == 0 {
				g.bin(op, x, yv, m)
			} else {
				g.bin(op, yv, x, m)
			}
		}
	})
	for !g.w.full() {
		x, y := g.cohortRich(), g.cohortRich()
		if g.r.Intn(3) == 0 {
			y = g.near(x)
		}
		xs := []d128.Decimal{x, g.variant(x), g.variant(x)}
		ys := []d128.Decimal{y, g.variant(y), g.variant(y)}
		for _, xv := range xs {
			g.un("Canonical", xv)
		}
		m := g.r.Intn(6)
		op := []string{"Add", "Sub", "Mul", "Quo", "QuoRem", "Cmp", "CmpAbs", "Equal", "Compare", "Min", "Max", "Round", "Ceil", "Floor", "Ldexp", "Frexp", "IsZero", "Sign",
			"Pow", "Pow", "String", "Sqrt", "Cbrt", "Exp", "Log", "Log1p", "Int", "Float64", "MarshalJSON"}[g.r.Intn(29)]
		if op == "Pow" && g.r.Intn(2) == 0 { // the shortcut ladder depends on recognising one, zero, integers in every encoding
			ys[0] = g.classRep()
			ys[1], ys[2] = g.variant(ys[0]), g.variant(ys[0])
			if g.r.Intn(2) == 0 {
				xs[0] = g.classRep()
				xs[1], xs[2] = g.variant(xs[0]), g.variant(xs[0])
			}
		}
		dp := g.r.Intn(81) - 40
		sh := g.r.Intn(201) - 100
		for i := range xs {
			xv, yv := xs[i], ys[g.r.Intn(len(ys))]
			switch op {
			case "Add", "Sub", "Mul", "Quo", "QuoRem":
				g.bin(op, xv, yv, m)
			case "Pow":
				g.pow(xv, yv, m, true)
			case "Cmp", "CmpAbs", "Equal", "Compare", "Min", "Max":
				g.bin2(op, xv, yv)
			case "Round", "Ceil", "Floor":
				g.quant(op, xv, dp, m)
			case "Ldexp":
				e := Ev{"op": "Ldexp"}
				e.setDec("x", xv)
				setInt(e, "exp", sh)
				g.emit(e)
			default:
				g.un(op, xv)
			}
		}
	}
}
