package main

import (
	"math"
	"math/big"
	"strings"

	d128 "github.com/woodsbury/decimal128"
)

// ---- C13 -------------------------------------------------------------------

func (g *Gen) jsonValue() d128.Decimal {
	switch g.r.Intn(8) {
	case 6:
		return mk(g.r.Intn(2) == 0, g.boundaryCoef(), g.r.Intn(61)-40)
	case 7:
		return mk(g.r.Intn(2) == 0, g.fullCoef(), g.r.Intn(61)-40)
	case 0:
		return randAny(g.r)
	case 1:
		return mk(g.r.Intn(2) == 0, new(big.Int), randExp(g.r))
	default:
		nd := 1 + g.r.Intn(35)
		c := randDigits(g.r, nd)
		c.Mul(c, pow10(g.r.Intn(36-nd)))
		if c.Cmp(cMax) > 0 {
			c = new(big.Int).Set(cMax)
		}
		adj := []int{-9, -8, -7, -6, -5, -1, 0, 1, 5, 6, 18, 19, 20, 21, 22, 99, 100, -99, -100, 999, 1000, -999, -1000}[g.r.Intn(23)]
		if g.r.Intn(4) == 0 {
			adj = g.r.Intn(12000) - 6000
		}
		return mk(g.r.Intn(2) == 0, c, clampExp(adj-(len(c.String())-1)))
	}
}

func (g *Gen) jsonNumberText() string {
	var sb strings.Builder
	if g.r.Intn(3) == 0 {
		sb.WriteByte('-')
	}
	ni := []int{1, 1, 2, 5, 19, 20, 34, 35, 36, 39, 40, 60}[g.r.Intn(12)]
	ip := g.digitsStr(ni)
	ip = strings.TrimLeft(ip, "0")
	if ip == "" {
		ip = "0"
	}
	sb.WriteString(ip)
	if g.r.Intn(2) == 0 {
		sb.WriteByte('.')
		sb.WriteString(g.digitsStr(1 + g.r.Intn(45)))
	}
	if g.r.Intn(2) == 0 {
		sb.WriteByte("eE"[g.r.Intn(2)])
		switch g.r.Intn(3) {
		case 0:
			sb.WriteByte('+')
		case 1:
			sb.WriteByte('-')
		}
		ex := []int{0, 1, 5, 20, 100, 400, 6000, 6111, 6145, 6176, 6177, 6190, 6215, 7000, 99999}[g.r.Intn(15)]
		if g.r.Intn(3) == 0 {
			ex = g.r.Intn(6500)
		}
		es := big.NewInt(int64(ex)).String()
		if g.r.Intn(8) == 0 {
			es = "000" + es
		}
		sb.WriteString(es)
	}
	return sb.String()
}

func genC13(g *Gen) {
	g.setMode(0)
	g.encodingGrid(0.1, func(x d128.Decimal) { g.un("MarshalJSON", x) })
	nearMiss := []string{"+1", ".5", "5.", "01", "1_0", "-", "--1", "1e", "1e+", "1.e5", "0x10", "1 ", " 1", "Infinity", "NaN", "-Infinity", "inf", "nan",
		"", "nul", "nulll", "NULL", "true", "false", "\"1\"", "\"1.5\"", "[1]", "[]", "{}", "{\"a\":1}", "1,2", "1e5e5", "00", "-01", "1.2.3", "١", "\x00", "1\x00"}
	otherTypes := []string{"true", "false", "\"1\"", "\"abc\"", "[1]", "[]", "{}", "{\"a\":1}", "null"}
	// every way of ending a number wrongly (and a few right ones), after 1, 20 and 40 digits: the parser changes loop once
	// the digits no longer fit 64 bits, and each loop has its own copy of the syntax checks
	tails := []string{"", "0", ".5", "e5", "E-5", "e+05", "_1", "_.5", "._5", ".5_5", "e1_0", "e_1", "e+_1", "_e5", "e5_", "__1", "_", "+", "e", "e+", ".", "..", ".e5", "e5.", "e5e5", "-", "x", " ", "e 5", ".5.5"}
	heads := []string{"1", "12345678901234567890", "1234567890123456789012345678901234567890", "-98765432109876543210987", "0.0000000000000000000001234567890123456789012"}
	g.gridRun(len(tails)*len(heads), 0.08, func(i int) {
		s := heads[i/len(tails)] + tails[i%len(tails)]
		e := Ev{"op": "UnmarshalJSON", "s": ints([]byte(s))}
		e.setDec("prev", randAny(g.r))
		g.emit(e)
		if strings.TrimSpace(s) != s {
			return // inside a document, white space around a value is part of the document, not of the value
		}
		ed := Ev{"op": "UnmarshalDoc", "s": ints([]byte(s))}
		ed.setDec("prev", randAny(g.r))
		g.emit(ed)
	})
	for !g.w.full() {
		switch g.r.Intn(10) {
		case 0, 1, 2, 3:
			g.un("MarshalJSON", g.jsonValue())
		case 4, 5:
			e := Ev{"op": "UnmarshalJSON", "s": ints([]byte(g.jsonNumberText()))}
			e.setDec("prev", randAny(g.r))
			g.emit(e)
			if g.r.Intn(3) == 0 { // an inexact literal under every DefaultRoundingMode, both signs
				t := g.tieLiteral()
				if len(t) > 0 && t[0] == '+' {
					t = t[1:]
				}
				if len(t) > 0 && (t[0] == '.' || (t[0] == '-' && len(t) > 1 && t[1] == '.')) {
					t = strings.Replace(t, ".", "0.", 1)
				}
				t = strings.Replace(t, ".e", ".0e", 1)
				for m := 0; m < 6; m++ {
					g.setMode(m)
					ej := Ev{"op": "UnmarshalJSON", "s": ints([]byte(t))}
					ej.setDec("prev", randAny(g.r))
					g.emit(ej)
					if g.r.Intn(3) == 0 {
						ed := Ev{"op": "UnmarshalDoc", "s": ints([]byte(t))}
						ed.setDec("prev", randAny(g.r))
						g.emit(ed)
					}
				}
				g.setMode(0)
			}
		case 6:
			s := nearMiss[g.r.Intn(len(nearMiss))]
			if g.r.Intn(3) == 0 {
				s = g.mutate(g.jsonNumberText())
			}
			e := Ev{"op": "UnmarshalJSON", "s": ints([]byte(s))}
			e.setDec("prev", randAny(g.r))
			g.emit(e)
		case 7:
			b := make([]byte, g.r.Intn(10))
			for i := range b {
				b[i] = byte(g.r.Intn(256))
			}
			e := Ev{"op": "UnmarshalJSON", "s": ints(b)}
			e.setDec("prev", randAny(g.r))
			g.emit(e)
		case 8:
			e := Ev{"op": "UnmarshalDoc", "s": ints([]byte(otherTypes[g.r.Intn(len(otherTypes))]))}
			e.setDec("prev", randAny(g.r))
			g.emit(e)
		default:
			e := Ev{"op": "UnmarshalDoc", "s": ints([]byte(g.jsonNumberText()))}
			e.setDec("prev", randAny(g.r))
			g.emit(e)
		}
	}
}

// ---- C14 -------------------------------------------------------------------

func genC14(g *Gen) {
	g.setMode(0)
	g.encodingGrid(0.08, func(x d128.Decimal) {
		e := Ev{"op": "Decompose", "bufcap": []int{-1, 0, 16, 17}[g.r.Intn(4)]}
		e.setDec("x", x)
		g.emit(e)
	})
	lens := []int{0, 1, 2, 7, 8, 9, 15, 16, 17, 24, 31, 32, 33, 34, 40, 64, 100, 300}
	expEdges := []int{math.MinInt32, math.MinInt32 + 1, math.MinInt32 + 50, -100000, -6300, -6212, -6211, -6210, -6177, -6176, -6175, -6141, -6100, -40, -1, 0, 1, 40,
		6050, 6077, 6110, 6111, 6112, 6144, 6145, 6146, 6147, 6200, 100000, math.MaxInt32 - 50, math.MaxInt32 - 1, math.MaxInt32}
	// coefficients K * 10^j + (one non-zero digit somewhere in the j low digits): exact-or-error at every position
	lg := tailGrid(longJs)
	g.gridRun(len(lg), 0.2, func(i int) {
		c := g.longTailInt(lg[i])
		sig := c.Bytes()
		if g.r.Intn(3) == 0 {
			sig = append(make([]byte, []int{1, 7, 16, 17, 33}[g.r.Intn(5)]), sig...)
		}
		exp := g.r.Intn(81) - 40 - lg[i].j
		if g.r.Intn(4) == 0 {
			exp = []int{eMin, eMax}[g.r.Intn(2)] - lg[i].j + g.r.Intn(80) - 40
		}
		e := Ev{"op": "Compose", "form": 0, "neg": g.r.Intn(2) == 0, "sig": ints(sig), "exp": exp}
		e.setDec("prev", randAny(g.r))
		g.emit(e)
	})
	// exponents just outside the range that the coefficient compensates exactly: m * 10^f with the exponent f digits below
	// the smallest (folding the f trailing zeros gives exponent -6176), and one zero too few / one to spare; likewise at the top
	// (coefficient of d digits, exponent up to 35 - d above the largest); every byte length the coefficient can have
	g.gridRun(40*4*3, 0.1, func(i int) {
		f := 1 + i%40
		m := []*big.Int{big.NewInt(1), big.NewInt(3), big.NewInt(25), big.NewInt(int64(1 + g.r.Intn(999999)))}[(i/40)%4]
		df := (i/160)%3 - 1 // one zero too few, exact, one to spare
		c := new(big.Int).Mul(m, pow10(f))
		e := Ev{"op": "Compose", "form": 0, "neg": g.r.Intn(2) == 0, "sig": ints(c.Bytes()), "exp": eMin - f - df}
		e.setDec("prev", randAny(g.r))
		g.emit(e)
		// the top: a short coefficient far above the largest exponent
		nd := len(m.String())
		e2 := Ev{"op": "Compose", "form": 0, "neg": g.r.Intn(2) == 0, "sig": ints(append(make([]byte, g.r.Intn(3)*16), m.Bytes()...)), "exp": eMax + (f % 36) + df*(35-nd-f%36)}
		e2.setDec("prev", randAny(g.r))
		g.emit(e2)
	})
	// (total digit count) x (position of the only non-zero digit below a short leading part) x (leading digit): the
	// reduction of a wide coefficient runs in stages (256, 192, 128 bits, 19 digits at a time, then single digits), each stage
	// zero to several times, and every step must refuse a non-zero remainder -- also one left by an EARLIER step of the
	// same stage.  The leading digits 1 / 6 / 7 / 9 put a 77-digit coefficient on both sides of 2^192 * 10^19 etc.
	{
		ds := []int{35, 36, 37, 38, 39, 40, 57, 58, 59, 60, 76, 77, 78, 79, 96, 97, 115, 116, 135, 154}
		ps := []int{1, 2, 18, 19, 20, 21, 37, 38, 39, 40, 41, 57, 58, 59, 76, 77}
		lead := []int64{1, 6, 7, 9}
		g.gridRun(len(ds)*len(ps)*len(lead), 0.2, func(i int) {
			D, p, l := ds[i%len(ds)], ps[(i/len(ds))%len(ps)], lead[i/(len(ds)*len(ps))]
			if p >= D {
				return
			}
			c := new(big.Int).Mul(big.NewInt(l), pow10(D-1))
			if g.r.Intn(3) == 0 && D-p > 3 { // two more leading digits
				c.Add(c, new(big.Int).Mul(big.NewInt(int64(g.r.Intn(100))), pow10(D-3)))
			}
			c.Add(c, new(big.Int).Mul(big.NewInt(int64(1+g.r.Intn(9))), pow10(p-1)))
			exp := -D + g.r.Intn(5) - 2
			if g.r.Intn(5) == 0 {
				exp = []int{eMin, eMax}[g.r.Intn(2)] - (p - 1) + g.r.Intn(3) - 1
			}
			e := Ev{"op": "Compose", "form": 0, "neg": g.r.Intn(2) == 0, "sig": ints(c.Bytes()), "exp": exp}
			e.setDec("prev", randAny(g.r))
			g.emit(e)
		})
	}
	// a power of ten (times 1, 3, 25) of up to 730 digits whose zeros compensate an exponent that far below the smallest one
	// exactly (the value is then m * 10^-6176), one zero too few and one to spare; every length 35..130 and some beyond
	{
		var ks []int
		for k := 35; k <= 130; k++ {
			ks = append(ks, k)
		}
		ks = append(ks, 150, 192, 200, 255, 256, 289, 300, 301, 400, 500, 600, 722, 723)
		g.gridRun(len(ks)*3, 0.12, func(i int) {
			k := ks[i%len(ks)]
			df := i/len(ks) - 1
			m := []int64{1, 1, 3, 25}[g.r.Intn(4)]
			c := new(big.Int).Mul(big.NewInt(m), pow10(k))
			e := Ev{"op": "Compose", "form": 0, "neg": g.r.Intn(2) == 0, "sig": ints(c.Bytes()), "exp": eMin - k - df}
			e.setDec("prev", randAny(g.r))
			g.emit(e)
		})
	}
	for !g.w.full() {
		switch g.r.Intn(3) {
		case 0:
			e := Ev{"op": "Decompose", "bufcap": []int{-1, 0, 8, 15, 16, 17, 64}[g.r.Intn(7)]}
			x := randAny(g.r)
			if g.r.Intn(3) == 0 {
				x = rawDec(g.r.Uint64(), g.r.Uint64())
			}
			e.setDec("x", x)
			g.emit(e)
		default:
			g.emit(g.composeCall(lens, expEdges))
		}
	}
}

// composeCall: a Compose call with a structured coefficient (digit runs, zero runs, short tails, word boundaries),
// exponents around every range threshold, all forms
func (g *Gen) composeCall(lens []int, expEdges []int) Ev {
	var c *big.Int
	switch g.r.Intn(8) {
	case 0:
		c = randCoef(g.r)
	case 1: // short digits then many decimal zeros
		c = new(big.Int).Mul(randDigits(g.r, 1+g.r.Intn(34)), pow10([]int{0, 1, 4, 18, 19, 20, 37, 38, 39, 57, 76, 100, 300}[g.r.Intn(13)]))
	case 2: // just too many digits
		c = randDigits(g.r, 35+g.r.Intn(4))
	case 3:
		n := lens[g.r.Intn(len(lens))]
		b := make([]byte, n)
		g.r.Read(b)
		c = new(big.Int).SetBytes(b)
	case 6: // digits, a run of zeros, then a short non-zero tail: exactness must be refused at every reduction step
		c = new(big.Int).Mul(randDigits(g.r, 1+g.r.Intn(60)), pow10([]int{4, 5, 7, 8, 9, 12, 16, 19, 20, 23, 27, 38}[g.r.Intn(12)]))
		c.Add(c, big.NewInt(int64(1+g.r.Intn(9999))))
	case 4:
		c = new(big.Int).Add(cMax, big.NewInt(int64(g.r.Intn(3)-1)))
	default:
		c = new(big.Int)
	}
	sig := c.Bytes()
	if g.r.Intn(3) == 0 {
		sig = append(make([]byte, []int{1, 2, 7, 15, 16, 17, 20, 31, 32, 33, 40, 200}[g.r.Intn(12)]), sig...)
	}
	var exp int
	switch g.r.Intn(5) {
	case 0:
		exp = expEdges[g.r.Intn(len(expEdges))]
	case 1: // compensate the trailing zeros / digits around the ends of the range
		nd := len(c.String())
		exp = []int{eMin, eMax}[g.r.Intn(2)] - nd + g.r.Intn(2*nd+6) - 3
	case 2:
		exp = g.r.Intn(12600) - 6300
	default:
		exp = g.r.Intn(81) - 40
	}
	form := 0
	switch g.r.Intn(12) {
	case 0:
		form = 1
	case 1:
		form = 2
	case 2:
		form = g.r.Intn(256)
	}
	e := Ev{"op": "Compose", "form": form, "neg": g.r.Intn(2) == 0, "sig": ints(sig), "exp": exp}
	e.setDec("prev", randAny(g.r))
	return e
}
