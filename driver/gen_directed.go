package main

import (
	"math/big"

	d128 "github.com/woodsbury/decimal128"
)

// Word-size boundaries of the implementation's integer arithmetic: values whose leading decimal digits equal
// those of 2^64, 2^128/10, 0x19<<120, ... sit right at the points where pre-scaling loops stop, products wrap
// or quotient estimates are corrected. The specification knows nothing of them; they only steer the search.
var boundaryWords []*big.Int

func init() {
	one := big.NewInt(1)
	for _, sh := range []uint{63, 64, 65, 113, 114, 120, 125, 126, 127, 128, 190, 191, 192, 227, 255, 256} {
		w := new(big.Int).Lsh(one, sh)
		boundaryWords = append(boundaryWords, w, new(big.Int).Sub(w, one))
	}
	for _, hx := range []string{"18ffffffffffffffffffffffffffffffff", "19000000000000000000000000000000", "1999999999999999999999999999999a",
		"027fffffffffffffffffffffffffffff", "09c40000000000000000000000000000", "00fa0000000000000000000000000000", "00190000000000000000000000000000",
		"00027fffffffffffffffffffffffffff", "0001ffffffffffffffffffffffffffff", "18ffffffffffffff", "027fffffffffffff", "00027fffffffffff"} {
		w, _ := new(big.Int).SetString(hx, 16)
		boundaryWords = append(boundaryWords, w)
	}
}

// boundaryCoef: the first n digits of a word boundary (possibly divided by a power of ten), +- a few units
func (g *Gen) boundaryCoef() *big.Int {
	switch g.r.Intn(10) {
	case 0, 1:
		c, _ := g.wordCoefRandom()
		return c
	case 2:
		bc := bitCoefs()
		return bc[g.r.Intn(len(bc))]
	}
	return g.boundaryCoefOf(boundaryWords[g.r.Intn(len(boundaryWords))])
}

func (g *Gen) boundaryCoefOf(w *big.Int) *big.Int {
	s := w.String()
	n := 1 + g.r.Intn(35)
	if n > len(s) {
		n = len(s)
	}
	if g.r.Intn(2) == 0 && len(s) >= 19 {
		n = 15 + g.r.Intn(21)
		if n > len(s) {
			n = len(s)
		}
	}
	v, _ := new(big.Int).SetString(s[:n], 10)
	v.Add(v, big.NewInt(int64(g.r.Intn(9)-3)))
	if v.Sign() <= 0 {
		v = big.NewInt(1)
	}
	if g.r.Intn(3) == 0 { // the same digits followed by zeros
		z := g.r.Intn(36 - len(v.String()))
		if z > 0 {
			v.Mul(v, pow10(z))
		}
	}
	if v.Cmp(cMax) > 0 {
		v = new(big.Int).Set(cMax)
	}
	return v
}

// wrapCoef: digits just above 2^64/10^k, 2^128/10^k (or just below): one more multiplication by ten wraps a word
func (g *Gen) wrapCoef() *big.Int {
	if g.r.Intn(3) == 0 {
		return g.wrapMultiple()
	}
	w := new(big.Int).Lsh(big.NewInt(1), []uint{64, 128, 128, 128, 127, 126, 192}[g.r.Intn(7)])
	s := w.String()
	n := 18 + g.r.Intn(18)
	if n > len(s) {
		n = len(s)
	}
	v, _ := new(big.Int).SetString(s[:n], 10)
	v.Add(v, big.NewInt(int64(g.r.Intn(12)-4)))
	if n < 35 && g.r.Intn(2) == 0 { // arbitrary further digits
		k := g.r.Intn(36 - n)
		if k > 0 {
			v.Mul(v, pow10(k))
			v.Add(v, new(big.Int).Rand(g.r, pow10(k)))
		}
	}
	if v.Cmp(cMax) > 0 {
		v.Div(v, ten)
	}
	return v
}

// wrapMultiple: c = ceil(j * 2^W / 10^k) + (0..2) for W in {64, 128}, k in the step sizes of the scaling loops and j drawn
// so that c is a legal coefficient: c * 10^k exceeds j * 2^W by less than 3 * 10^k -- the product wraps to a SMALL value, not
// only for j = 1.  A guard that inspects the wrapped product ("does the high word still fit") accepts it.
func (g *Gen) wrapMultiple() *big.Int {
	return g.wrapMultipleOf([]uint{64, 128, 128}[g.r.Intn(3)], []int{1, 2, 3, 4, 8, 8, 19}[g.r.Intn(7)])
}

func (g *Gen) wrapMultipleOf(W uint, k int) *big.Int {
	w := new(big.Int).Lsh(big.NewInt(1), W)
	jmax := new(big.Int).Div(new(big.Int).Mul(cMax, pow10(k)), w)
	if jmax.Sign() == 0 { // no multiple fits: the leading 34 digits of 2^W instead
		c := new(big.Int).Set(w)
		for c.Cmp(cMax) > 0 {
			c.Div(c, ten)
		}
		return c
	}
	j := new(big.Int).Add(new(big.Int).Rand(g.r, jmax), big.NewInt(1))
	c := new(big.Int).Mul(j, w)
	c.Add(c, new(big.Int).Sub(pow10(k), big.NewInt(1))).Div(c, pow10(k))
	c.Add(c, big.NewInt(int64(g.r.Intn(3))))
	if c.Cmp(cMax) > 0 {
		c.Set(cMax)
	}
	return c
}

// topValue: values at the very top of the range: coefficients at or just below the largest one (and its decimal
// prefixes), the largest power of ten, all-nines, at the largest exponents
func (g *Gen) topValue() d128.Decimal {
	one := big.NewInt(1)
	var c *big.Int
	switch g.r.Intn(7) {
	case 0:
		c = new(big.Int).Set(cMax)
	case 1:
		c = new(big.Int).Sub(cMax, big.NewInt(int64(g.r.Intn(20))))
	case 2: // a decimal prefix of the largest coefficient, possibly minus a unit
		j := 1 + g.r.Intn(25)
		c = new(big.Int).Div(cMax, pow10(j))
		if g.r.Intn(2) == 0 {
			c.Sub(c, one)
		}
	case 3:
		c = pow10(g.r.Intn(35))
	case 4:
		c = new(big.Int).Sub(pow10(1+g.r.Intn(34)), one)
	case 5: // the top 2^64-wide band of coefficients
		c = new(big.Int).Sub(cMax, new(big.Int).SetUint64(g.r.Uint64()))
	default:
		c = g.fullCoef()
	}
	return mk(g.r.Intn(2) == 0, c, eMax-g.r.Intn(3)*g.r.Intn(12))
}

func (g *Gen) topValueCoef() *big.Int {
	_, _, c, _ := unmk(g.topValue())
	if c.Sign() == 0 {
		return big.NewInt(1)
	}
	return c
}

// bottomValue: the smallest magnitudes: few digits at the smallest exponents
func (g *Gen) bottomValue() d128.Decimal {
	c := big.NewInt(int64(1 + g.r.Intn(20)))
	if g.r.Intn(3) == 0 {
		c = randCoef(g.r)
		if c.Sign() == 0 {
			c = big.NewInt(1)
		}
	}
	return mk(g.r.Intn(2) == 0, c, eMin+g.r.Intn(3)*g.r.Intn(12))
}

// mulToTop: a product whose exponent exceeds the largest one and has to be folded into the coefficient, landing at or
// just around the largest finite value
func (g *Gen) mulToTop() (x, y d128.Decimal) {
	t := g.topValue()
	_, neg, c, e := unmk(t)
	j := 1 + g.r.Intn(20)
	p := new(big.Int).Div(c, pow10(j)) // c ~ p * 10^j
	if p.Sign() == 0 {
		p = big.NewInt(1)
	}
	k := g.r.Intn(j + 1)
	yc := pow10(k)
	if g.r.Intn(3) == 0 {
		yc = big.NewInt(int64(1 + g.r.Intn(9)))
		k = 0
	}
	// p * 10^k * 10^(ex+ey) should equal about c * 10^e  =>  ex + ey = e + j - k
	sum := e + j - k + g.r.Intn(3) - 1
	ex := clampExp(sum - g.r.Intn(40))
	ey := clampExp(sum - ex)
	x, y = mk(neg, p, ex), mk(g.r.Intn(2) == 0, yc, ey)
	if g.r.Intn(2) == 0 {
		x, y = y, x
	}
	return
}

// mulSolved: a * b whose exact product has 35+j digits with a chosen j-digit tail (guard digit + sticky pattern)
func (g *Gen) mulSolved() (x, y d128.Decimal, ok bool) {
	j := 1 + g.r.Intn(9)
	if g.r.Intn(4) == 0 {
		j = []int{19, 20, 23, 27, 28, 30, 34}[g.r.Intn(7)]
	}
	total := 35 + j
	if g.r.Intn(3) == 0 {
		total = 34 + j
	}
	na := total / 2
	switch g.r.Intn(3) {
	case 0:
		na = 1 + g.r.Intn(19) // one operand below 2^64
	case 1:
		na = 20 + g.r.Intn(15)
	}
	nb := total - na
	if nb < 1 || nb > 35 || na > 35 {
		return x, y, false
	}
	var a *big.Int
	for {
		a = randDigits(g.r, na)
		if a.Bit(0) == 1 && new(big.Int).Mod(a, big.NewInt(5)).Sign() != 0 {
			break
		}
		a.Add(a, big.NewInt(1))
		if a.Bit(0) == 1 && new(big.Int).Mod(a, big.NewInt(5)).Sign() != 0 {
			break
		}
	}
	mod := pow10(j)
	var t *big.Int
	switch g.r.Intn(8) {
	case 0: // d X 0 .. 0 : guard, one non-zero digit, zeros
		t = new(big.Int).Mul(big.NewInt(int64(g.r.Intn(10))), pow10(j-1))
		if j >= 2 {
			t.Add(t, new(big.Int).Mul(big.NewInt(int64(1+g.r.Intn(9))), pow10(j-2)))
		}
	case 1: // a single non-zero digit somewhere in the tail
		t = new(big.Int).Mul(big.NewInt(int64(1+g.r.Intn(9))), pow10(g.r.Intn(j)))
	default:
		t = g.tail(j)
	}
	t.Mod(t, mod)
	inv := new(big.Int).ModInverse(a, mod)
	if inv == nil {
		return x, y, false
	}
	low := new(big.Int).Mul(t, inv)
	low.Mod(low, mod)
	var b *big.Int
	if nb > j {
		b = new(big.Int).Add(new(big.Int).Mul(randDigits(g.r, nb-j), mod), low)
	} else {
		b = low
	}
	if b.Sign() == 0 || a.Cmp(cMax) > 0 || b.Cmp(cMax) > 0 {
		return x, y, false
	}
	e1, e2 := randExp(g.r), randExp(g.r)
	switch g.r.Intn(5) {
	case 0:
		e2 = clampExp(eMin - e1 - g.r.Intn(45) + 2)
	case 1:
		e2 = clampExp(eMax - e1 - j + g.r.Intn(4) - 1)
	case 2:
		e1, e2 = g.r.Intn(41)-20, g.r.Intn(41)-20
	}
	x, y = mk(g.r.Intn(2) == 0, a, e1), mk(g.r.Intn(2) == 0, b, e2)
	if g.r.Intn(2) == 0 {
		x, y = y, x
	}
	return x, y, true
}

// quoSolved: x / 2^a (or 5^b) with x chosen modulo the divisor so that the terminating quotient ends in a chosen
// pattern (ties, guard digit + sticky), or boundary-word operands
func (g *Gen) quoSolved() (x, y d128.Decimal) {
	var c1, c2 *big.Int
	switch g.r.Intn(4) {
	case 0, 1:
		a := 1 + g.r.Intn(14)
		c2 = new(big.Int).Lsh(big.NewInt(1), uint(a))
		c1 = g.fullCoef()
		// choose the residue of c1 modulo 2^a: 2^(a-1) gives an exact tie, others guard/sticky shapes
		res := []int64{1 << uint(a-1), 1, (1 << uint(a)) - 1, (1 << uint(a-1)) + 1, (1 << uint(a-1)) - 1}[g.r.Intn(5)]
		c1.Sub(c1, new(big.Int).Mod(c1, c2))
		c1.Add(c1, big.NewInt(res%(1<<uint(a))))
		if c1.Cmp(cMax) > 0 {
			c1.Sub(c1, c2)
		}
		if g.r.Intn(3) == 0 {
			c2.Mul(c2, pow10(g.r.Intn(10)))
		}
	case 2:
		b := 1 + g.r.Intn(12)
		c2 = new(big.Int).Exp(big.NewInt(5), big.NewInt(int64(b)), nil)
		c1 = g.fullCoef()
		c1.Sub(c1, new(big.Int).Mod(c1, c2))
		c1.Add(c1, big.NewInt(int64(g.r.Intn(5))))
	default:
		c1, c2 = g.boundaryCoef(), g.boundaryCoef()
		if g.r.Intn(2) == 0 {
			c1 = g.wrapCoef()
		}
		switch g.r.Intn(3) {
		case 0:
			c2 = randCoef(g.r)
		case 1:
			c2 = big.NewInt(int64(1 + g.r.Intn(100)))
		}
	}
	if c2.Sign() == 0 {
		c2 = big.NewInt(7)
	}
	if c1.Sign() <= 0 || c1.Cmp(cMax) > 0 {
		c1 = g.fullCoef()
	}
	if c2.Cmp(cMax) > 0 {
		c2 = new(big.Int).Set(cMax)
	}
	e1, e2 := g.r.Intn(61)-30, g.r.Intn(61)-30
	if g.r.Intn(3) == 0 {
		e1, e2 = randExp(g.r), randExp(g.r)
	}
	return mk(g.r.Intn(2) == 0, c1, e1), mk(g.r.Intn(2) == 0, c2, e2)
}

// quoRemStructured: long integer quotients with long runs of zero digits and a non-zero remainder, word-boundary
// dividends with large exponent gaps
func (g *Gen) quoRemStructured() (x, y d128.Decimal) {
	var c1, c2 *big.Int
	gap := 0
	switch g.r.Intn(6) {
	case 4: // |x| and |y| of the same order: the integer quotient is 0..9; the divisor has very few digits
		c1 = g.fullCoef()
		if g.r.Intn(2) == 0 {
			c1 = g.topValueCoef()
		}
		c2 = big.NewInt(int64(1 + g.r.Intn(12)))
		gap = -(len(c1.String()) - len(c2.String()) + g.r.Intn(3) - 1)
	case 5: // a long integer quotient whose 35-digit prefix lies in the partly-35-digit band [2^113, largest coefficient]
		c2 = randDigits(g.r, 21+g.r.Intn(13))
		band := new(big.Int).Add(new(big.Int).Lsh(big.NewInt(1), 113), new(big.Int).Rand(g.r, new(big.Int).Sub(cMax, new(big.Int).Lsh(big.NewInt(1), 113))))
		c1 = new(big.Int).Mul(c2, band)
		c1.Div(c1, pow10(len(c1.String())-34))
		gap = 36 + g.r.Intn(30)
	case 0, 1: // d * 10^k / (10^n +- 1)
		c1 = big.NewInt(int64(1 + g.r.Intn(999)))
		n := 3 + g.r.Intn(32)
		c2 = new(big.Int).Add(pow10(n), big.NewInt(int64(2*g.r.Intn(2)-1)))
		if g.r.Intn(4) == 0 {
			c2 = new(big.Int).Sub(pow10(n), big.NewInt(int64(1+g.r.Intn(5))))
		}
		gap = n + 20 + g.r.Intn(60)
	case 2: // boundary-word dividend, exponent gap at and beyond the 10^19 fast step
		c1 = g.boundaryCoef()
		if g.r.Intn(2) == 0 {
			c1 = g.wrapCoef()
		}
		c2 = big.NewInt(int64(1 + g.r.Intn(1000)))
		if g.r.Intn(2) == 0 {
			c2 = randCoef(g.r)
		}
		gap = []int{17, 18, 19, 20, 21, 22, 23, 27, 30, 38, 39, 40, 57, 58, 76}[g.r.Intn(15)]
	default:
		c1 = g.boundaryCoef()
		c2 = g.boundaryCoef()
		gap = g.r.Intn(45)
	}
	if c2.Sign() == 0 {
		c2 = big.NewInt(3)
	}
	if c2.Cmp(cMax) > 0 {
		c2 = new(big.Int).Set(cMax)
	}
	e2 := g.r.Intn(200) - 100
	if g.r.Intn(4) == 0 {
		e2 = randExp(g.r)
	}
	e1 := e2 + gap
	if e1 > eMax {
		e1 = eMax
		e2 = clampExp(e1 - gap)
	}
	if e1 < eMin {
		e1 = eMin
		e2 = clampExp(e1 - gap)
	}
	if c1.Sign() <= 0 {
		c1 = big.NewInt(1)
	}
	if c1.Cmp(cMax) > 0 {
		c1 = new(big.Int).Set(cMax)
	}
	return mk(g.r.Intn(2) == 0, c1, e1), mk(g.r.Intn(2) == 0, c2, e2)
}
