module verifdriver

go 1.21

require github.com/woodsbury/decimal128 v0.0.0

replace github.com/woodsbury/decimal128 => /repo
