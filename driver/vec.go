package main

import (
	"bufio"
	"os"
	"path/filepath"
	"sort"
	"strconv"
	"strings"

	d128 "github.com/woodsbury/decimal128"
)

// The repository's own test vectors (testdata/<Test>/*.txt) as a source of behaviours: only the INPUTS of each
// line are used; the real library is run on them (under every rounding mode where the operation has one) and the
// recorded calls are validated against the specification like any other trace. The expected results written in the
// files are ignored: the specification, not the test suite, is the oracle.
var vecDirs = map[string][]string{
	"C01": {"TestDecimalAdd", "TestDecimalSub"},
	"C02": {"TestDecimalMul", "TestDecimalQuo"},
	"C03": {"TestDecimalQuoRem"},
	"C04": {"TestDecimalCmp", "TestDecimalCmpAbs", "TestMax", "TestMin"},
	"C08": {"TestDecimalRound", "TestDecimalCeil", "TestDecimalFloor"},
	"C15": {"TestExp", "TestExp2", "TestExp10", "TestExpm1", "TestLog", "TestLog2", "TestLog10", "TestLog1p", "TestSqrt", "TestCbrt", "TestDecimalPow"},
	"C16": {"TestExp", "TestExp2", "TestExp10", "TestExpm1", "TestLog", "TestLog2", "TestLog10", "TestLog1p"},
	"C17": {"TestSqrt", "TestCbrt"},
	"C18": {"TestDecimalPow"},
	"C19": {"TestDecimalAdd", "TestDecimalMul", "TestDecimalCmp"},
}

type vecLine struct {
	dir  string
	file string
	args []string
}

var vecFuncs = map[string]string{
	"exp": "Exp", "exp2": "Exp2", "exp10": "Exp10", "expm1": "Expm1", "log": "Log", "log2": "Log2", "log10": "Log10",
	"log1p": "Log1p", "sqrt": "Sqrt", "cbrt": "Cbrt",
}

// readVectors returns the operand lists of every line of the given test directories (file order, line order).
func readVectors(testdata string, dirs []string) []vecLine {
	var out []vecLine
	for _, d := range dirs {
		files, _ := filepath.Glob(filepath.Join(testdata, d, "*.txt"))
		sort.Strings(files)
		for _, fn := range files {
			f, err := os.Open(fn)
			if err != nil {
				continue
			}
			sc := bufio.NewScanner(f)
			sc.Buffer(make([]byte, 1<<20), 1<<20)
			for sc.Scan() {
				line := sc.Text()
				k := strings.LastIndex(line, " = ")
				if k < 0 {
					continue
				}
				lhs := line[:k]
				// "f(a, b)" or "a OP b"
				var args []string
				if p := strings.IndexByte(lhs, '('); p >= 0 && strings.HasSuffix(lhs, ")") {
					args = append(args, lhs[:p])
					for _, a := range strings.Split(lhs[p+1:len(lhs)-1], ",") {
						args = append(args, strings.TrimSpace(a))
					}
				} else {
					fs := strings.Fields(lhs)
					if len(fs) != 3 {
						continue
					}
					args = []string{fs[1], fs[0], fs[2]}
				}
				out = append(out, vecLine{dir: d, file: filepath.Base(fn), args: args})
			}
			f.Close()
		}
	}
	return out
}

func vecDec(s string) (d128.Decimal, bool) {
	d, err := d128.Parse(s)
	if err != nil {
		return d, false
	}
	return d, true
}

// genVectors emits the calls of one shard: lines i with i % nshards == shard of a (seeded) selection.
func genVectors(g *Gen, prop, testdata string) {
	lines := readVectors(testdata, vecDirs[prop])
	if len(lines) == 0 {
		return
	}
	g.setMode(0)
	// selection: thorough takes every line of this shard's residue class; quick a random sample up to the budget
	var idx []int
	if g.thorough() {
		for i := g.shard; i < len(lines); i += g.nshards {
			idx = append(idx, i)
		}
	} else {
		for n := 0; n < 4*g.w.max; n++ {
			idx = append(idx, g.r.Intn(len(lines)))
		}
	}
	for _, i := range idx {
		if g.w.full() {
			break
		}
		ln := lines[i]
		g.vecCall(prop, ln)
	}
}

func (g *Gen) vecCall(prop string, ln vecLine) {
	a := ln.args
	switch ln.dir {
	case "TestDecimalAdd", "TestDecimalSub", "TestDecimalMul", "TestDecimalQuo", "TestDecimalQuoRem":
		x, ok1 := vecDec(a[1])
		y, ok2 := vecDec(a[2])
		if !ok1 || !ok2 {
			return
		}
		op := map[string]string{"TestDecimalAdd": "Add", "TestDecimalSub": "Sub", "TestDecimalMul": "Mul", "TestDecimalQuo": "Quo", "TestDecimalQuoRem": "QuoRem"}[ln.dir]
		if prop == "C19" {
			// the same operation on other encodings of the same operands
			g.bin(op, x, y, 0)
			g.bin(op, g.variant(x), g.variant(y), 0)
			return
		}
		if g.thorough() {
			g.allModes(op, x, y)
		} else {
			g.someModes(op, x, y, 2)
		}
	case "TestDecimalCmp", "TestDecimalCmpAbs":
		x, ok1 := vecDec(a[1])
		y, ok2 := vecDec(a[2])
		if !ok1 || !ok2 {
			return
		}
		if prop == "C19" {
			g.bin2("Cmp", x, y)
			g.bin2("Cmp", g.variant(x), g.variant(y))
			return
		}
		if ln.dir == "TestDecimalCmp" {
			g.bin2("Cmp", x, y)
			g.bin2("Equal", x, y)
			g.bin2("Compare", x, y)
		} else {
			g.bin2("CmpAbs", x, y)
		}
	case "TestMax", "TestMin":
		x, ok1 := vecDec(a[1])
		y, ok2 := vecDec(a[2])
		if !ok1 || !ok2 {
			return
		}
		g.bin2(map[string]string{"TestMax": "Max", "TestMin": "Min"}[ln.dir], x, y)
	case "TestDecimalRound", "TestDecimalCeil", "TestDecimalFloor":
		x, ok := vecDec(a[1])
		dp, err := strconv.Atoi(a[2])
		if !ok || err != nil {
			return
		}
		switch ln.dir {
		case "TestDecimalRound":
			for m := 0; m < 6; m++ {
				g.quant("Round", x, dp, m)
			}
		case "TestDecimalCeil":
			g.quant("Ceil", x, dp, 0)
		default:
			g.quant("Floor", x, dp, 0)
		}
	case "TestDecimalPow":
		x, ok1 := vecDec(a[1])
		y, ok2 := vecDec(a[2])
		if !ok1 || !ok2 {
			return
		}
		special := g.powSpecial(x, y)
		if prop == "C15" && !special {
			return
		}
		if g.thorough() && prop == "C18" && special {
			for m := 0; m < 6; m++ {
				g.pow(x, y, m, true)
			}
		} else {
			g.pow(x, y, g.r.Intn(6), true)
		}
	default:
		op, ok := vecFuncs[a[0]]
		if !ok || len(a) != 2 {
			return
		}
		x, okx := vecDec(a[1])
		if !okx {
			return
		}
		if prop == "C15" && !isSpecialFor(op, x) {
			return
		}
		g.un(op, x)
	}
}
