package main

import (
	"encoding/json"
	"flag"
	"fmt"
	"math/rand"
	"os"
	"path/filepath"
	"sync"
)

var generators = map[string]func(*Gen){
	"C01": genC01,
	"C02": genC02,
	"C03": genC03,
	"C04": genC04,
	"C05": genC05,
	"C06": genC06,
	"C07": genC07,
	"C08": genC08,
	"C09": genC09,
	"C10": genC10,
	"C11": genC11,
	"C12": genC12,
	"C13": genC13,
	"C14": genC14,
	"C15": genC15,
	"C16": genC16,
	"C17": genC17,
	"C18": genC18,
	"C19": genC19,
	"C20": genC20,
}

func main() {
	if len(os.Args) < 2 {
		fmt.Fprintln(os.Stderr, "usage: driver gen|replay ...")
		os.Exit(2)
	}
	switch os.Args[1] {
	case "gen":
		fs := flag.NewFlagSet("gen", flag.ExitOnError)
		prop := fs.String("prop", "", "property id")
		tier := fs.String("tier", "quick", "quick|thorough")
		seed := fs.Int64("seed", 1, "seed")
		out := fs.String("out", "", "output directory")
		shards := fs.Int("shards", 12, "number of shards")
		steps := fs.Int("steps", 1000, "events per shard")
		testdata := fs.String("testdata", "", "the repository's testdata directory (source of the vector shards)")
		vshards := fs.Int("vshards", 0, "number of shards drawn from the repository's own test vectors")
		vsteps := fs.Int("vsteps", 1000, "events per vector shard")
		fs.Parse(os.Args[2:])
		gen, ok := generators[*prop]
		if !ok {
			fmt.Fprintln(os.Stderr, "no generator for", *prop)
			os.Exit(2)
		}
		// shards are generated sequentially: DefaultRoundingMode is process-global state
		_ = sync.Mutex{}
		for s := 0; s < *shards; s++ {
			w := newWriter(filepath.Join(*out, fmt.Sprintf("shard_%02d.ndjson", s)), *steps)
			g := &Gen{r: rand.New(rand.NewSource(*seed*1000 + int64(s))), w: w, tier: *tier, shard: s, nshards: *shards}
			gen(g)
			w.close()
		}
		if _, ok := vecDirs[*prop]; ok && *testdata != "" {
			for s := 0; s < *vshards; s++ {
				w := newWriter(filepath.Join(*out, fmt.Sprintf("shard_v%02d.ndjson", s)), *vsteps)
				g := &Gen{r: rand.New(rand.NewSource(*seed*1000 + 500 + int64(s))), w: w, tier: *tier, shard: s, nshards: *vshards}
				genVectors(g, *prop, *testdata)
				w.close()
			}
		}
		for k, v := range gridHits {
			gridStats[k+"Solved"] = [2]int{v, v}
		}
		if len(gridStats) > 0 {
			b, _ := json.Marshal(gridStats)
			os.WriteFile(filepath.Join(*out, "grids.json"), b, 0o644)
		}
	case "replay":
		replayMain(os.Args[2:])
	case "replaybeh":
		replayBehMain(os.Args[2:])
	default:
		fmt.Fprintln(os.Stderr, "unknown command")
		os.Exit(2)
	}
}
