package main

import (
	"math"
	"math/big"

	d128 "github.com/woodsbury/decimal128"
)

// realInt returns the Go int to pass to the library for field k. The event
// carries the value clamped to +-1e6 for the specification (whose integers are
// 32 bit; beyond 1e5 no semantics depends on the magnitude) and, when it was
// clamped, the real value under k+"real".
func realInt(e Ev, k string) int {
	if e.has(k + "real") {
		return int(fromBigN(e[k+"real"]).Int64())
	}
	return e.int(k)
}

func setInt(e Ev, k string, v int) {
	const lim = 1_000_000
	if v > lim {
		e[k] = lim
		e[k+"real"] = bigNInt(int64(v))
	} else if v < -lim {
		e[k] = -lim
		e[k+"real"] = bigNInt(int64(v))
	} else {
		e[k] = v
	}
}

// scribbleChanges overwrites a returned byte slice in place and reports whether a second call then returns something
// else than the first one did: the result must not alias storage that later calls read
func scribbleChanges(first []byte, again func() []byte) bool {
	want := string(first)
	for i := range first {
		first[i] ^= 0x20
	}
	got := string(again())
	for i := range first {
		first[i] ^= 0x20
	}
	return got != want
}

func errStr(err error) string {
	if err == nil {
		return ""
	}
	s := err.Error()
	if s == "" {
		s = "error"
	}
	return s
}

func init() {
	cmp := func(name string, f func(x, y d128.Decimal) d128.CmpResult) {
		execTable[name] = func(e Ev) {
			c := f(e.dec("x"), e.dec("y"))
			e["lt"], e["eq"], e["gt"], e["le"], e["ge"] = c.Less(), c.Equal(), c.Greater(), c.LessOrEqual(), c.GreaterOrEqual()
		}
	}
	cmp("Cmp", d128.Decimal.Cmp)
	cmp("CmpAbs", d128.Decimal.CmpAbs)
	execTable["Equal"] = func(e Ev) { e["b"] = e.dec("x").Equal(e.dec("y")) }
	execTable["Compare"] = func(e Ev) { e["n"] = d128.Compare(e.dec("x"), e.dec("y")) }
	execTable["IsZero"] = func(e Ev) { e["b"] = e.dec("x").IsZero() }
	execTable["IsNaN"] = func(e Ev) { e["b"] = e.dec("x").IsNaN() }
	execTable["IsInf"] = func(e Ev) { e["b"] = e.dec("x").IsInf(e.int("sgn")) }
	execTable["Signbit"] = func(e Ev) { e["b"] = e.dec("x").Signbit() }
	execTable["Sign"] = func(e Ev) { e["n"] = e.dec("x").Sign() }
	execTable["Neg"] = func(e Ev) { setRes(e, "r", e.dec("x").Neg()) }
	execTable["Abs"] = func(e Ev) { setRes(e, "r", d128.Abs(e.dec("x"))) }
	execTable["Min"] = func(e Ev) { setRes(e, "r", d128.Min(e.dec("x"), e.dec("y"))) }
	execTable["Max"] = func(e Ev) { setRes(e, "r", d128.Max(e.dec("x"), e.dec("y"))) }

	execTable["Round"] = func(e Ev) {
		dp := realInt(e, "dp")
		r := e.dec("x").Round(dp, mode(e))
		e.setDec("r", r)
		e.setDec("rr", r.Round(dp, mode(e)))
	}
	execTable["Ceil"] = func(e Ev) {
		dp := realInt(e, "dp")
		r := e.dec("x").Ceil(dp)
		e.setDec("r", r)
		e.setDec("rr", r.Ceil(dp))
	}
	execTable["Floor"] = func(e Ev) {
		dp := realInt(e, "dp")
		r := e.dec("x").Floor(dp)
		e.setDec("r", r)
		e.setDec("rr", r.Floor(dp))
	}
	pkg := func(name string, f func(d128.Decimal) d128.Decimal) {
		execTable[name] = func(e Ev) {
			r := f(e.dec("x"))
			e.setDec("r", r)
			e.setDec("rr", f(r))
		}
	}
	pkg("PkgRound", d128.Round)
	pkg("PkgTrunc", d128.Trunc)
	pkg("PkgCeil", d128.Ceil)
	pkg("PkgFloor", d128.Floor)

	execTable["New"] = func(e Ev) {
		sig := fromBigN(e["sig"]).Int64()
		e.setDec("r", d128.New(sig, realInt(e, "exp")))
	}
	execTable["Ldexp"] = func(e Ev) { e.setDec("r", d128.Ldexp(e.dec("x"), realInt(e, "exp"))) }
	execTable["Frexp"] = func(e Ev) {
		f, x := d128.Frexp(e.dec("x"))
		e.setDec("r", f)
		setInt(e, "e", x)
		e.setDec("back", d128.Ldexp(f, x))
	}
	execTable["Canonical"] = func(e Ev) {
		r := e.dec("x").Canonical()
		e.setDec("r", r)
		e.setDec("rr", r.Canonical())
	}
	execTable["MarshalBinary"] = func(e Ev) {
		x := e.dec("x")
		b, err := x.MarshalBinary()
		e["bs"] = ints(b)
		e["err"] = errStr(err)
		e["alias"] = scribbleChanges(b, func() []byte { r, _ := x.MarshalBinary(); return r })
	}
	execTable["UnmarshalBinary"] = func(e Ev) {
		d := e.dec("prev")
		in := e.bytes("bs")
		cp := append([]byte(nil), in...)
		err := d.UnmarshalBinary(in)
		e.setDec("r", d)
		e["err"] = errStr(err)
		e["inmod"] = string(cp) != string(in)
	}
	_ = math.Pi
	_ = big.NewInt
}
