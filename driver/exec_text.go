package main

import (
	"errors"
	"fmt"
	"strconv"

	d128 "github.com/woodsbury/decimal128"
)

func errClass(err error) string {
	switch {
	case err == nil:
		return "none"
	case errors.Is(err, strconv.ErrSyntax):
		return "syntax"
	case errors.Is(err, strconv.ErrRange):
		return "range"
	}
	return "other"
}

func parseVia(via, s string, prev d128.Decimal) (d d128.Decimal, err error) {
	d = prev
	switch via {
	case "Parse":
		return d128.Parse(s)
	case "MustParse":
		return d128.MustParse(s), nil
	case "UnmarshalText":
		err = d.UnmarshalText([]byte(s))
		return d, err
	case "Sscan":
		_, err = fmt.Sscan(s, &d)
		return d, err
	}
	panic("driver: via " + via)
}

func init() {
	execTable["Parse"] = func(e Ev) {
		var prev d128.Decimal
		if e.has("prev") {
			prev = e.dec("prev")
		}
		d, err := parseVia(e.str("via"), string(e.bytes("s")), prev)
		setRes(e, "r", d)
		e["err"] = errClass(err)
	}
	execTable["String"] = func(e Ev) {
		x := e.dec("x")
		s := x.String()
		e["s"] = ints([]byte(s))
		mt, err := x.MarshalText()
		if err != nil {
			mt = []byte("error: " + err.Error())
		}
		e["mt"] = ints(mt)
		e["alias"] = scribbleChanges(mt, func() []byte { r, _ := x.MarshalText(); return r }) ||
			scribbleChanges(d128.Append(nil, x, 'g', -1), func() []byte { return d128.Append(nil, x, 'g', -1) }) ||
			scribbleChanges(x.Append(nil, "v"), func() []byte { return x.Append(nil, "v") })
		e["v"] = ints([]byte(fmt.Sprintf("%v", x)))
		e["g"] = ints([]byte(d128.Format(x, 'g', -1)))
		e["e1"] = ints(d128.Append(nil, x, 'e', -1))
		e["f1"] = ints([]byte(d128.Format(x, 'f', -1)))
		for _, v := range [][2]string{{"bp", "Parse"}, {"bu", "UnmarshalText"}, {"bs", "Sscan"}} {
			d, err := parseVia(v[1], s, d128.Decimal{})
			e.setDec(v[0], d)
			e[v[0]+"err"] = errClass(err)
		}
		// the 'e' and 'f' texts of precision -1 are interchange forms too: each is read back through the three routes
		for _, t := range [][2]string{{"e", string(e.bytes("e1"))}, {"f", string(e.bytes("f1"))}} {
			for _, v := range [][2]string{{"bp", "Parse"}, {"bu", "UnmarshalText"}, {"bs", "Sscan"}} {
				d, err := parseVia(v[1], t[1], d128.Decimal{})
				e.setDec(v[0]+t[0], d)
				e[v[0]+t[0]+"err"] = errClass(err)
			}
		}
		// the string returned earlier must not change when further calls are made
		e["stable"] = string(e.bytes("s")) == s
	}
}
