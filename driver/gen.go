package main

import (
	"math/big"
	"math/rand"

	d128 "github.com/woodsbury/decimal128"
)

// Gen is one shard's generator context.
type Gen struct {
	r       *rand.Rand
	w       *Writer
	tier    string
	shard   int
	nshards int
	dm      int // DefaultRoundingMode as last set by this session
	batch   int // concurrent batches emitted so far (C20)
}

func (g *Gen) thorough() bool { return g.tier == "thorough" }

func (g *Gen) emit(e Ev) Ev {
	exec(e)
	g.w.put(e)
	return e
}

func (g *Gen) setMode(m int) {
	g.dm = m
	g.emit(Ev{"op": "SetMode", "m": m})
}

func (g *Gen) bin(op string, x, y d128.Decimal, m int) Ev {
	e := Ev{"op": op, "wm": true, "m": m}
	e.setDec("x", x)
	e.setDec("y", y)
	return g.emit(e)
}

func (g *Gen) binDefault(op string, x, y d128.Decimal) Ev {
	e := Ev{"op": op, "wm": false}
	e.setDec("x", x)
	e.setDec("y", y)
	return g.emit(e)
}

// allModes runs op on (x, y) under every rounding mode; now and then also the
// default-mode form under a freshly set DefaultRoundingMode.
func (g *Gen) allModes(op string, x, y d128.Decimal) {
	for m := 0; m < 6; m++ {
		g.bin(op, x, y, m)
	}
	if g.r.Intn(4) == 0 {
		g.setMode(g.r.Intn(6))
		g.binDefault(op, x, y)
	}
}

// allDefaultModes runs the plain (default-mode) form of op under every DefaultRoundingMode
func (g *Gen) allDefaultModes(op string, x, y d128.Decimal) {
	for m := 0; m < 6; m++ {
		g.setMode(m)
		g.binDefault(op, x, y)
	}
	g.setMode(0)
}

func (g *Gen) someModes(op string, x, y d128.Decimal, k int) {
	for i := 0; i < k; i++ {
		g.bin(op, x, y, g.r.Intn(6))
	}
	if g.r.Intn(6) == 0 {
		if g.r.Intn(3) == 0 {
			g.setMode(g.r.Intn(6))
		}
		g.binDefault(op, x, y)
	}
}

var gapAtoms = []int{0, 1, 2, 3, 4, 5, 7, 8, 9, 15, 16, 17, 18, 19, 20, 21, 26, 27, 28, 33, 34, 35, 36, 37, 38, 39, 40, 41, 50, 69, 70, 71, 80, 200, 1000, 6000, 12000, 12287}

func (g *Gen) gap() int {
	if g.r.Intn(3) == 0 {
		return g.r.Intn(45)
	}
	return gapAtoms[g.r.Intn(len(gapAtoms))]
}

// guard/sticky patterns of k digits placed just below a kept coefficient
func (g *Gen) tail(k int) *big.Int {
	half := new(big.Int).Mul(big.NewInt(5), pow10(k-1))
	one := big.NewInt(1)
	switch g.r.Intn(9) {
	case 0:
		return half
	case 1:
		return new(big.Int).Add(half, one)
	case 2:
		if k > 1 {
			return new(big.Int).Sub(half, one)
		}
		return big.NewInt(4)
	case 3:
		return one
	case 4:
		return new(big.Int).Sub(pow10(k), one)
	case 5:
		return new(big.Int).Mul(big.NewInt(int64(1+g.r.Intn(9))), pow10(k-1))
	case 6:
		if k > 1 {
			return new(big.Int).Add(new(big.Int).Mul(big.NewInt(int64(g.r.Intn(10))), pow10(k-1)), one)
		}
		return big.NewInt(int64(1 + g.r.Intn(9)))
	default:
		return randDigits(g.r, k)
	}
}

// a kept coefficient of 34/35 digits with an interesting low end
func (g *Gen) fullCoef() *big.Int {
	one := big.NewInt(1)
	switch g.r.Intn(11) {
	case 10: // the low 64-bit word is 0, 1 or all ones: a rounding increment carries (or must not carry) across the words
		return g.resultCoef(g.r.Intn(35))
	case 0:
		return new(big.Int).Set(cMax)
	case 1:
		return new(big.Int).Sub(cMax, one)
	case 2:
		return new(big.Int).Sub(pow10(34), one)
	case 3:
		return pow10(34)
	case 4:
		return pow10(33)
	case 5:
		return new(big.Int).Div(new(big.Int).Add(cMax, one), ten)
	case 6:
		v := randDigits(g.r, 34)
		v.Sub(v, new(big.Int).Mod(v, ten))
		return v.Add(v, big.NewInt(int64(g.r.Intn(10))))
	case 7:
		return new(big.Int).Add(pow10(34), new(big.Int).Rand(g.r, new(big.Int).Sub(cMax, pow10(34))))
	default:
		return randDigits(g.r, 34)
	}
}
