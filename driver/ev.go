package main

import (
	"bufio"
	"encoding/json"
	"fmt"
	"math/big"
	"os"

	d128 "github.com/woodsbury/decimal128"
)

// Ev is one recorded call: inputs, outputs, observed shared state. All integers
// that can exceed 31 bits are written as {neg, l: base-10^4 little-endian limbs}
// (the BigNat representation of the TLA+ specification); byte strings as arrays
// of small integers.
type Ev map[string]any

func ints(b []byte) []int {
	r := make([]int, len(b))
	for i, v := range b {
		r[i] = int(v)
	}
	return r
}

func toBytes(v any) []byte {
	switch t := v.(type) {
	case []int:
		r := make([]byte, len(t))
		for i, x := range t {
			r[i] = byte(x)
		}
		return r
	case []any:
		r := make([]byte, len(t))
		for i, x := range t {
			r[i] = byte(x.(float64))
		}
		return r
	case []byte:
		return t
	case string:
		return []byte(t)
	case nil:
		return nil
	}
	panic(fmt.Sprintf("toBytes: %T", v))
}

func (e Ev) bytes(k string) []byte { return toBytes(e[k]) }

func (e Ev) has(k string) bool { _, ok := e[k]; return ok }

func (e Ev) int(k string) int {
	switch t := e[k].(type) {
	case int:
		return t
	case float64:
		return int(t)
	case int64:
		return int(t)
	}
	panic(fmt.Sprintf("int(%s): %T", k, e[k]))
}

func (e Ev) bool(k string) bool {
	b, _ := e[k].(bool)
	return b
}

func (e Ev) str(k string) string {
	s, _ := e[k].(string)
	return s
}

func bitsOf(d d128.Decimal) []byte {
	hi, lo := d128.VerifBits(d)
	b := make([]byte, 16)
	for i := 0; i < 8; i++ {
		b[i] = byte(hi >> (56 - 8*i))
		b[8+i] = byte(lo >> (56 - 8*i))
	}
	return b
}

func fromBits(b []byte) d128.Decimal {
	var hi, lo uint64
	for i := 0; i < 8; i++ {
		hi = hi<<8 | uint64(b[i])
		lo = lo<<8 | uint64(b[8+i])
	}
	return d128.VerifFromBits(hi, lo)
}

func (e Ev) dec(k string) d128.Decimal { return fromBits(e.bytes(k)) }

func (e Ev) setDec(k string, d d128.Decimal) { e[k] = ints(bitsOf(d)) }

// bigN encodes an integer as sign + base-10^4 little-endian limbs.
func bigN(v *big.Int) map[string]any {
	s := new(big.Int).Abs(v).Text(10)
	l := []int{}
	if s != "0" {
		for end := len(s); end > 0; end -= 4 {
			st := end - 4
			if st < 0 {
				st = 0
			}
			x := 0
			for _, c := range s[st:end] {
				x = x*10 + int(c-'0')
			}
			l = append(l, x)
		}
	}
	return map[string]any{"neg": v.Sign() < 0, "l": l}
}

func bigNInt(v int64) map[string]any { return bigN(big.NewInt(v)) }

func fromBigN(v any) *big.Int {
	m := v.(map[string]any)
	r := new(big.Int)
	var ls []int
	switch t := m["l"].(type) {
	case []int:
		ls = t
	case []any:
		for _, x := range t {
			ls = append(ls, int(x.(float64)))
		}
	}
	for i := len(ls) - 1; i >= 0; i-- {
		r.Mul(r, big.NewInt(10000))
		r.Add(r, big.NewInt(int64(ls[i])))
	}
	if b, _ := m["neg"].(bool); b {
		r.Neg(r)
	}
	return r
}

// Writer appends events to one ndjson shard.
type Writer struct {
	f   *os.File
	w   *bufio.Writer
	n   int
	max int
}

func newWriter(path string, max int) *Writer {
	f, err := os.Create(path)
	if err != nil {
		panic(err)
	}
	curWriter = &Writer{f: f, w: bufio.NewWriterSize(f, 1<<20), max: max}
	return curWriter
}

// the trace being written (one at a time)
var curWriter *Writer

func (w *Writer) full() bool { return w.max > 0 && w.n >= w.max }

func (w *Writer) put(e Ev) {
	w.n++
	e["i"] = w.n
	b, err := json.Marshal(e)
	if err != nil {
		panic(err)
	}
	w.w.Write(b)
	w.w.WriteByte('\n')
}

func (w *Writer) close() {
	w.w.Flush()
	w.f.Close()
}
