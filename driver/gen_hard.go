package main

import (
	"math/big"

	d128 "github.com/woodsbury/decimal128"
)

// Hard cases for the correctly rounded decimal -> binary conversion (Float with a precision of 114 bits or more).
// A conversion that rounds twice, or carries too few guard bits, is wrong only for decimals c * 10^e whose exact binary
// expansion lies extremely close to a rounding midpoint -- far closer than any drawn operand comes (a slip of 2^-64 ulp
// needs a case within 2^-64 ulp).  Such cases are SOLVED for: for a fixed exponent e and precision p the distance of
// c * 10^e from the nearest midpoint is ((c*a - t) mod m) for fixed integers a, m, t, and the c in a given range that
// minimises it is a closest-vector problem in a two-dimensional lattice (Lagrange reduction + Babai rounding).

// closestResidue returns c in [clo, chi] making (c*a - t) mod m (taken in (-m/2, m/2]) as small as the lattice allows.
func closestResidue(a, m, t, clo, chi *big.Int) *big.Int {
	d := new(big.Int).Sub(chi, clo)
	d.Rsh(d, 1) // half width of the range
	if d.Sign() == 0 {
		return new(big.Int).Set(clo)
	}
	c0 := new(big.Int).Add(clo, d)
	// scale the residue coordinate so that both coordinates of a good vector have about the size of d: S = 2 d^2 / m (>= 1)
	S := new(big.Int).Div(new(big.Int).Mul(big.NewInt(2), new(big.Int).Mul(d, d)), m)
	if S.Sign() == 0 {
		S = big.NewInt(1)
	}
	type vec [2]*big.Int
	b1 := vec{big.NewInt(1), new(big.Int).Mul(new(big.Int).Mod(a, m), S)}
	b2 := vec{big.NewInt(0), new(big.Int).Mul(m, S)}
	dot := func(u, v vec) *big.Int {
		return new(big.Int).Add(new(big.Int).Mul(u[0], v[0]), new(big.Int).Mul(u[1], v[1]))
	}
	roundDiv := func(n, dd *big.Int) *big.Int { // nearest integer to n/dd, dd > 0
		two := big.NewInt(2)
		num := new(big.Int).Add(new(big.Int).Mul(n, two), dd)
		den := new(big.Int).Mul(dd, two)
		q, r := new(big.Int).DivMod(num, den, new(big.Int))
		_ = r
		return q
	}
	for it := 0; it < 10000; it++ {
		if dot(b1, b1).Cmp(dot(b2, b2)) > 0 {
			b1, b2 = b2, b1
		}
		mu := roundDiv(dot(b1, b2), dot(b1, b1))
		if mu.Sign() == 0 {
			break
		}
		b2 = vec{new(big.Int).Sub(b2[0], new(big.Int).Mul(mu, b1[0])), new(big.Int).Sub(b2[1], new(big.Int).Mul(mu, b1[1]))}
	}
	// Babai: target (c0, t*S) = x1 b1 + x2 b2
	tx, ty := c0, new(big.Int).Mul(t, S)
	det := new(big.Int).Sub(new(big.Int).Mul(b1[0], b2[1]), new(big.Int).Mul(b1[1], b2[0]))
	if det.Sign() == 0 {
		return new(big.Int).Set(c0)
	}
	n1 := new(big.Int).Sub(new(big.Int).Mul(tx, b2[1]), new(big.Int).Mul(ty, b2[0]))
	n2 := new(big.Int).Sub(new(big.Int).Mul(b1[0], ty), new(big.Int).Mul(b1[1], tx))
	if det.Sign() < 0 {
		det.Neg(det)
		n1.Neg(n1)
		n2.Neg(n2)
	}
	x1, x2 := roundDiv(n1, det), roundDiv(n2, det)
	var best, bestRes *big.Int
	half := new(big.Int).Rsh(m, 1)
	for i := int64(-2); i <= 2; i++ {
		for j := int64(-2); j <= 2; j++ {
			k1 := new(big.Int).Add(x1, big.NewInt(i))
			k2 := new(big.Int).Add(x2, big.NewInt(j))
			c := new(big.Int).Add(new(big.Int).Mul(k1, b1[0]), new(big.Int).Mul(k2, b2[0]))
			if c.Cmp(clo) < 0 || c.Cmp(chi) > 0 {
				continue
			}
			res := new(big.Int).Sub(new(big.Int).Mul(c, a), t)
			res.Mod(res, m)
			if res.Cmp(half) > 0 {
				res.Sub(m, res)
			}
			if best == nil || res.Cmp(bestRes) < 0 {
				best, bestRes = c, res
			}
		}
	}
	if best == nil {
		return new(big.Int).Set(c0)
	}
	return best
}

// hardFloatCase: a decimal c * 10^e (c in a drawn sub-range of the 113-bit coefficients) whose exact value is as close
// to a midpoint between two consecutive p-bit binary floats as the lattice allows (typically 2^-100 ulp and closer)
func (g *Gen) hardFloatCase(e, p int) (d128.Decimal, bool) {
	// a sub-range of [2^112, Cmax] on which the bit length of c * 5^|e| is constant
	lo := new(big.Int).Lsh(big.NewInt(1), 112)
	span := new(big.Int).Sub(cMax, lo)
	w := new(big.Int).Rsh(span, 3)
	clo := new(big.Int).Add(lo, new(big.Int).Mul(w, big.NewInt(int64(g.r.Intn(7)))))
	chi := new(big.Int).Add(clo, w)
	var c *big.Int
	if e > 0 {
		f := new(big.Int).Exp(big.NewInt(5), big.NewInt(int64(e)), nil)
		bl := new(big.Int).Mul(clo, f).BitLen()
		if new(big.Int).Mul(chi, f).BitLen() != bl {
			return d128.Decimal{}, false
		}
		k := bl - p // bits dropped from c * 5^e
		if k < 2 {
			return d128.Decimal{}, false
		}
		m := new(big.Int).Lsh(big.NewInt(1), uint(k))
		t := new(big.Int).Lsh(big.NewInt(1), uint(k-1))
		c = closestResidue(new(big.Int).Mod(f, m), m, t, clo, chi)
	} else {
		n := -e
		f := new(big.Int).Exp(big.NewInt(5), big.NewInt(int64(n)), nil)
		// c * 2^s / 5^n has p bits: s = p + bitlen(5^n) - 113 or one more
		for _, s := range []int{p + f.BitLen() - 113, p + f.BitLen() - 112, p + f.BitLen() - 114} {
			if s < 0 {
				continue
			}
			qlo := new(big.Int).Div(new(big.Int).Lsh(clo, uint(s)), f)
			qhi := new(big.Int).Div(new(big.Int).Lsh(chi, uint(s)), f)
			if qlo.BitLen() != p || qhi.BitLen() != p {
				continue
			}
			// c * 2^(s+1) = (2M+1) * 5^n + small
			m := new(big.Int).Lsh(f, 1)
			a := new(big.Int).Mod(new(big.Int).Lsh(big.NewInt(1), uint(s+1)), m)
			c = closestResidue(a, m, f, clo, chi)
			break
		}
		if c == nil {
			return d128.Decimal{}, false
		}
	}
	if c.Cmp(cMax) > 0 || c.Sign() <= 0 {
		return d128.Decimal{}, false
	}
	return mk(g.r.Intn(2) == 0, c, e), true
}

// ratFarSticky solves for a quotient A / B (both of at most 34 digits) whose decimal expansion is K (34 digits), then a
// guard digit gd, then at least eight zeros, and only then something non-zero: the inexactness is decided by a remainder
// that is tiny compared with the divisor.  (10K + gd) * B + r = A * 10^(s+1) with 0 < r < B / 10^8.
func (g *Gen) ratFarSticky(gd int) (a, b *big.Int, ok bool) { return g.ratFarStickySigned(gd, false) }

// with below set the remainder is negative: the quotient lies just BELOW 10K + gd, so its expansion is the 34 digits, the
// guard digit gd - 1 (with a borrow for gd = 0), then at least eight NINES -- a quotient taken with floor instead of
// truncation, or a sticky flag of the wrong sign, shows there
func (g *Gen) ratFarStickySigned(gd int, below bool) (a, b *big.Int, ok bool) {
	nb := 10 + g.r.Intn(20) // digits of B
	s := nb
	for {
		b = randDigits(g.r, nb)
		if b.Bit(0) == 1 && new(big.Int).Mod(b, big.NewInt(5)).Sign() != 0 {
			break
		}
	}
	mod := pow10(s + 1)
	// r small with r = -gd * B (mod 10)
	r := new(big.Int).Rand(g.r, new(big.Int).Div(b, pow10(9)))
	r.Add(r, big.NewInt(1))
	want := new(big.Int).Mod(new(big.Int).Neg(new(big.Int).Mul(big.NewInt(int64(gd)), b)), big.NewInt(10))
	if below {
		want.Mod(new(big.Int).Neg(want), big.NewInt(10))
	}
	for new(big.Int).Mod(r, big.NewInt(10)).Cmp(want) != 0 {
		r.Add(r, big.NewInt(1))
	}
	if below {
		r.Neg(r)
	}
	inv := new(big.Int).ModInverse(b, mod)
	if inv == nil {
		return nil, nil, false
	}
	t := new(big.Int).Mod(new(big.Int).Neg(new(big.Int).Mul(r, inv)), mod) // 10K + gd modulo 10^(s+1)
	if new(big.Int).Mod(t, big.NewInt(10)).Int64() != int64(gd) {
		return nil, nil, false
	}
	klow := new(big.Int).Div(t, big.NewInt(10)) // K modulo 10^s
	khigh := randDigits(g.r, 34-s)
	k := new(big.Int).Add(new(big.Int).Mul(khigh, pow10(s)), klow)
	n := new(big.Int).Add(new(big.Int).Mul(new(big.Int).Add(new(big.Int).Mul(k, big.NewInt(10)), big.NewInt(int64(gd))), b), r)
	if new(big.Int).Mod(n, mod).Sign() != 0 {
		return nil, nil, false
	}
	a = new(big.Int).Div(n, mod)
	if len(a.String()) > 34 || a.Sign() == 0 {
		return nil, nil, false
	}
	return a, b, true
}

// ratFarStickySmall: like ratFarSticky, but with both A and B below limit (so that they can be multiplied by a common
// power of two: the remainders of the long division are then all multiples of that power, i.e. have zero low bits/words).
// A * 10^35 = (10K + gd) * B + r with 0 < r < B / 10^8, K of exactly 34 digits.
func (g *Gen) ratFarStickySmall(gd int, limit *big.Int) (a, b *big.Int, ok bool) {
	nb := len(limit.String()) - 1
	for {
		b = randDigits(g.r, nb)
		if b.Bit(0) == 1 && new(big.Int).Mod(b, big.NewInt(5)).Sign() != 0 {
			break
		}
	}
	scale := pow10(35)
	r := new(big.Int).Rand(g.r, new(big.Int).Div(b, pow10(9)))
	r.Add(r, big.NewInt(1))
	// (10K + gd) * B = A * 10^35 - r  =>  gd * B = -r (mod 10)
	want := new(big.Int).Mod(new(big.Int).Neg(new(big.Int).Mul(big.NewInt(int64(gd)), b)), big.NewInt(10))
	for new(big.Int).Mod(r, big.NewInt(10)).Cmp(want) != 0 {
		r.Add(r, big.NewInt(1))
	}
	inv := new(big.Int).ModInverse(new(big.Int).Mod(scale, b), b)
	if inv == nil {
		return nil, nil, false
	}
	a = new(big.Int).Mod(new(big.Int).Mul(r, inv), b)
	if a.Sign() == 0 || a.Cmp(limit) >= 0 || new(big.Int).Mul(a, big.NewInt(10)).Cmp(b) < 0 {
		return nil, nil, false
	}
	t := new(big.Int).Sub(new(big.Int).Mul(a, scale), r)
	q, rem := new(big.Int).QuoRem(t, b, new(big.Int))
	if rem.Sign() != 0 || new(big.Int).Mod(q, big.NewInt(10)).Int64() != int64(gd) || len(q.String()) != 35 {
		return nil, nil, false
	}
	return a, b, true
}

// rootNearMidpoint solves for an argument of Sqrt (p = 2) or Cbrt (p = 3) whose exact root lies BELOW the midpoint of two
// adjacent 34-digit results by between 1e-20 and 1e-15 of a unit in the last place -- where an iteration that stops one step
// early, or starts from a poorer seed, still has an excess of that size and rounds the wrong way, while the property's
// margin (1e-20 ulp) does not excuse it.  With N0 = a * 10^(34-len(a)) (a short) and the target root N0 + k + 1/2,
//   (N0 + k + 1/2)^2 = N0^2 + N0 (2k+1) + (k + 1/2)^2,   (N0 + k + 1/2)^3 = N0^3 + 3 N0^2 (2k+1)/2 + ...
// the first two terms are made a 34-digit coefficient times a power of ten by choosing 2k+1 a multiple of the odd modulus
// that divisibility asks for; the neglected term puts the root (k + 1/2)^2 / (2 N0) resp. (k + 1/2)^2 / N0 units below the
// midpoint: k between 10^7 and 10^9.  Drawn arguments come no closer than about 1e-2 ulp.
func (g *Gen) rootNearMidpoint(p int) (d128.Decimal, bool) {
	for try := 0; try < 200; try++ {
		la := 1 + g.r.Intn(6)
		a := randDigits(g.r, la)
		if g.r.Intn(2) == 0 && la > 1 { // leading digit 9: the poorest seeds of the iterations
			a = new(big.Int).Add(new(big.Int).Mul(big.NewInt(9), pow10(la-1)), new(big.Int).Rand(g.r, pow10(la-1)))
		}
		// divisibility asks for a power of two in a (2k+1 is odd): round a down to a multiple of it
		ql := len(new(big.Int).Exp(a, big.NewInt(int64(p)), nil).String()) - la
		j := uint(ql)
		if p == 3 {
			j = uint(ql+2) / 2
		}
		a.Rsh(a, j).Lsh(a, j)
		if a.Sign() == 0 || len(a.String()) != la {
			continue
		}
		n0 := new(big.Int).Mul(a, pow10(34-la))
		var base, lin *big.Int
		if p == 2 {
			base = new(big.Int).Mul(n0, n0)
			lin = new(big.Int).Set(n0)
		} else {
			base = new(big.Int).Mul(n0, new(big.Int).Mul(n0, n0))
			lin = new(big.Int).Mul(big.NewInt(3), new(big.Int).Mul(n0, n0))
			lin.Rsh(lin, 1)
		}
		s := len(base.String()) - 34
		P := pow10(s)
		m := new(big.Int).Div(P, new(big.Int).GCD(nil, nil, lin, P))
		if m.Bit(0) == 0 || m.Cmp(big.NewInt(1000000000)) > 0 {
			continue
		}
		// 2k+1 = m * odd, in [2e7, 3e9] spread over the decades
		lo := []int64{20000000, 200000000, 1000000000}[g.r.Intn(3)]
		o := new(big.Int).Div(big.NewInt(lo+g.r.Int63n(2*lo)), m)
		o.Or(o, big.NewInt(1))
		tk := new(big.Int).Mul(m, o)
		num := new(big.Int).Add(base, new(big.Int).Mul(lin, tk))
		q, r := new(big.Int).QuoRem(num, P, new(big.Int))
		if r.Sign() != 0 || q.Cmp(pow10(33)) < 0 || q.Cmp(cMax) > 0 {
			continue
		}
		q.Add(q, big.NewInt(int64([]int{0, 0, 0, 1, -1}[g.r.Intn(5)])))
		e := s%p + p*(g.r.Intn(21)-10-s/p)
		return mk(p == 3 && g.r.Intn(2) == 0, q, e), true
	}
	return d128.Decimal{}, false
}
