package main

import (
	"fmt"
	"math"
	"math/big"
	"strings"

	d128 "github.com/woodsbury/decimal128"
)

// ---- C07 -------------------------------------------------------------------

func (g *Gen) flagSubset() string {
	var sb strings.Builder
	bits := g.r.Intn(32)
	for i, f := range "+-# 0" {
		if bits>>uint(i)&1 == 1 {
			sb.WriteRune(f)
		}
	}
	// fmt accepts flags in any order and repeated
	s := sb.String()
	if len(s) > 1 && g.r.Intn(4) == 0 {
		b := []byte(s)
		g.r.Shuffle(len(b), func(i, j int) { b[i], b[j] = b[j], b[i] })
		s = string(b)
	}
	return s
}

// a value whose digits, cut at `keep` significant digits, end in a chosen guard/sticky pattern
func (g *Gen) fmtValue(keep int) d128.Decimal {
	neg := g.r.Intn(2) == 0
	switch g.r.Intn(8) {
	case 0:
		return randAny(g.r)
	case 1:
		return mk(neg, new(big.Int), g.r.Intn(13)-6)
	case 2: // all nines: carry into a new leading digit
		n := 1 + g.r.Intn(34)
		return mk(neg, new(big.Int).Sub(pow10(n), big.NewInt(1)), g.r.Intn(30)-25)
	case 6: // every digit lies below the rounding position of %.<prec>f: the kept prefix is empty (0.5 -> %.0f)
		k := 1 + g.r.Intn(6)
		t := g.tail(k)
		if t.Sign() == 0 {
			t = big.NewInt(5)
		}
		return mk(neg, t, -(keep-1)-len(t.String())-g.r.Intn(2))
	case 3, 4, 5: // kept digits, then a tie / near-tie tail
		if keep < 0 {
			keep = 0
		}
		if keep > 30 {
			keep = 30
		}
		k := 1 + g.r.Intn(34-keep)
		var head *big.Int
		if keep == 0 {
			head = new(big.Int)
		} else {
			head = randDigits(g.r, keep)
		}
		t := g.tail(k)
		c := new(big.Int).Add(new(big.Int).Mul(head, pow10(k)), t)
		if c.Cmp(cMax) > 0 || c.Sign() == 0 {
			c = big.NewInt(5)
		}
		// exponent so that the adjusted exponent falls around the %g switch-overs and small positional forms
		adj := g.r.Intn(16) - 8
		e := adj - (len(c.String()) - 1)
		return mk(neg, c, clampExp(e))
	default:
		c := randDigits(g.r, 1+g.r.Intn(35))
		if c.Cmp(cMax) > 0 {
			c = new(big.Int).Set(cMax)
		}
		adj := []int{-7, -6, -5, -4, -3, 0, 1, 5, 6, 7, 9, 10, 20, 21, 39, 40, 41, 99, 100, 101, -99, -100, -101, 999, 1000, 1001, -999, -1000, -1001, 6000, -6000, 6145, -6176}[g.r.Intn(33)]
		return mk(neg, c, clampExp(adj-(len(c.String())-1)))
	}
}

// decimals that are exactly float64 values with at most 15 significant digits (for the toolchain cross-check)
func (g *Gen) exactBinary() (d128.Decimal, float64) {
	num := int64(g.r.Intn(1 << 20))
	if g.r.Intn(4) == 0 {
		num = int64(g.r.Intn(1000))
	}
	j := g.r.Intn(11) // denominator 2^j
	f := float64(num) / float64(int64(1)<<uint(j))
	if g.r.Intn(2) == 0 {
		f = -f
	}
	s := fmt.Sprintf("%.15g", f)
	d, err := d128.Parse(s)
	if err != nil || d.Float64() != f {
		return d128.New(1, 0), 1
	}
	// make sure the decimal is exactly the binary value
	r := new(big.Rat).SetFloat64(f)
	if d.Rat(nil).Cmp(r) != 0 {
		return d128.New(1, 0), 1
	}
	return d, f
}

func genC07(g *Gen) {
	g.setMode(0)
	verbs := "eEfFgG"
	// every short format string: Sprintf and Append(spec) must agree on each (those that parse are laid out by FormatSem)
	g.gridRun(nShortSpecs, 0.1, func(i int) {
		e := Ev{"op": "Sprintf", "spec": ints(shortSpec(i))}
		e.setDec("x", []d128.Decimal{mk(true, big.NewInt(12375), -3), mk(false, big.NewInt(5), -1), mk(false, big.NewInt(25), -1), mk(true, big.NewInt(0), 0), mk(false, big.NewInt(123456789), 4), g.fmtValue(1)}[g.r.Intn(6)])
		g.emit(e)
	})
	for !g.w.full() {
		verb := verbs[g.r.Intn(len(verbs))]
		precs := []int{-1, -1, 0, 1, 2, 3, 5, 6, 7, 10, 17, 20, 33, 34, 35, 36, 40}
		prec := precs[g.r.Intn(len(precs))]
		widths := []int{-1, -1, 0, 1, 5, 8, 12, 20, 40}
		width := widths[g.r.Intn(len(widths))]
		keep := prec + 1
		if verb == 'g' || verb == 'G' {
			keep = prec
		}
		if verb == 'f' || verb == 'F' {
			keep = prec + 1
			if g.r.Intn(2) == 0 {
				keep += g.r.Intn(8)
			}
		}
		var x d128.Decimal
		var flt any
		if g.r.Intn(4) == 0 {
			d, f := g.exactBinary()
			x, flt = d, f64Rec(f)
		} else {
			x = g.fmtValue(keep)
		}
		spec := g.flagSubset()
		if width >= 0 {
			spec += fmt.Sprint(width)
		}
		if prec >= 0 {
			spec += "." + fmt.Sprint(prec)
		} else if g.r.Intn(10) == 0 {
			spec += "." // a bare point means precision zero
		}
		spec += string(verb)
		e := Ev{"op": "Sprintf", "spec": ints([]byte(spec))}
		e.setDec("x", x)
		if flt != nil {
			e["flt"] = flt
		}
		g.emit(e)
		if g.r.Intn(3) == 0 && verb != 'F' {
			fe := Ev{"op": "Format", "verb": int(verb)}
			fe.setDec("x", x)
			setInt(fe, "prec", prec)
			g.emit(fe)
		}
	}
	_ = math.Pi
}

// every format string of up to three symbols over {+ - # space 0 5 . e v}
const specAlpha = "+-# 05.ev"
const nShortSpecs = 1 + 9 + 81 + 729

func shortSpec(i int) []byte {
	switch {
	case i == 0:
		return nil
	case i < 10:
		return []byte{specAlpha[i-1]}
	case i < 91:
		return []byte{specAlpha[(i-10)/9], specAlpha[(i-10)%9]}
	}
	k := i - 91
	return []byte{specAlpha[k/81], specAlpha[k/9%9], specAlpha[k%9]}
}
