package main

import (
	"math"
	"math/big"
	"strconv"

	d128 "github.com/woodsbury/decimal128"
)

// ---- C16 -------------------------------------------------------------------

func (g *Gen) expArg(op string) d128.Decimal {
	neg := g.r.Intn(2) == 0
	thr := map[string][2]float64{"Exp": {14149.6, 14221}, "Exp2": {20413.6, 20516}, "Exp10": {6145.11, 6177}, "Expm1": {14149.6, 80}}[op]
	switch g.r.Intn(10) {
	case 9: // moderate arguments, uniformly in [-300, 300]: where e^x - 1 saturates at -1 and where e^x crosses the digit boundaries
		v := g.r.Intn(600001) - 300000
		return mk(v < 0, big.NewInt(int64(absInt(v))), -3)
	case 0: // tiny magnitudes 10^-k over the whole range
		k := g.r.Intn(6177)
		if g.r.Intn(2) == 0 {
			k = g.r.Intn(80)
		}
		c := randDigits(g.r, 1+g.r.Intn(34))
		e := clampExp(-k - (len(c.String()) - 1))
		return mk(neg, c, e)
	case 1: // around the overflow / underflow thresholds, a few units either side
		t := thr[0]
		if neg {
			t = thr[1]
		}
		base := new(big.Int).SetInt64(int64(t * 1000))
		base.Add(base, big.NewInt(int64(g.r.Intn(4001)-2000)))
		c := new(big.Int).Mul(base, pow10(20))
		c.Add(c, new(big.Int).Rand(g.r, pow10(20)))
		return mk(neg, c, -23)
	case 2: // integers (exact results for Exp2 / Exp10)
		n := int64(g.r.Intn(200))
		if g.r.Intn(3) == 0 {
			n = int64(g.r.Intn(21000))
		}
		return g.cohort(mk(neg, big.NewInt(n), 0))
	case 3: // integer + fraction
		n := int64(g.r.Intn(7000))
		if g.r.Intn(3) == 0 {
			n = int64(g.r.Intn(21000))
		}
		fr := randDigits(g.r, 1+g.r.Intn(28))
		c := new(big.Int).Add(new(big.Int).Mul(big.NewInt(n), pow10(len(fr.String()))), fr)
		if c.Cmp(cMax) > 0 {
			c = big.NewInt(n)
			return mk(neg, c, 0)
		}
		return mk(neg, c, -len(fr.String()))
	case 4: // moderate arguments with full coefficients
		return mk(neg, g.fullCoef(), -34+g.r.Intn(5)-1)
	case 5:
		return mk(neg, randCoef(g.r), -40+g.r.Intn(45))
	case 6: // far beyond the thresholds
		return mk(neg, randCoef(g.r), g.r.Intn(6000))
	default:
		c := randDigits(g.r, 1+g.r.Intn(34))
		return mk(neg, c, -len(c.String())+g.r.Intn(6)-1)
	}
}

func (g *Gen) logArg(op string) d128.Decimal {
	switch g.r.Intn(12) {
	case 9, 10: // the neighbourhood of one, where the result is small and its last place finest: [0.9, 1.2]
		c := new(big.Int).Add(new(big.Int).Mul(big.NewInt(int64(900+g.r.Intn(300))), pow10(30)), new(big.Int).Rand(g.r, pow10(30)))
		if g.r.Intn(3) == 0 { // short inputs such as 1.0999999
			k := 3 + g.r.Intn(10)
			c = new(big.Int).Div(c, pow10(33-k))
			return mk(false, c, -k)
		}
		return mk(false, c, -33)
	case 11: // the upper end of a leading-two-digit slot (largest series argument), value in [1, 10) or [0.1, 1)
		lead := 10 + g.r.Intn(90)
		c := new(big.Int).Add(new(big.Int).Mul(big.NewInt(int64(lead)), pow10(31)), new(big.Int).Sub(pow10(31), new(big.Int).Rand(g.r, pow10(29))))
		return mk(false, c, -32-g.r.Intn(2))
	case 0: // every leading-two-digit slot, anywhere in the exponent range
		lead := 10 + g.r.Intn(90)
		c := new(big.Int).Mul(big.NewInt(int64(lead)), pow10(g.r.Intn(33)))
		c.Add(c, new(big.Int).Rand(g.r, pow10(g.r.Intn(33)+1)))
		if c.Cmp(cMax) > 0 {
			c = big.NewInt(int64(lead))
		}
		return mk(false, c, randExp(g.r))
	case 1, 2: // 1 +- 10^-k
		k := 1 + g.r.Intn(34)
		c := pow10(k)
		d := big.NewInt(int64(1 + g.r.Intn(9)))
		if g.r.Intn(2) == 0 {
			c = new(big.Int).Add(c, d)
		} else {
			c = new(big.Int).Sub(c, d)
		}
		if c.Cmp(cMax) > 0 {
			c = pow10(34)
		}
		return mk(false, c, -k)
	case 3: // exact powers of two and ten
		if g.r.Intn(2) == 0 {
			k := g.r.Intn(113)
			return g.cohort(mk(false, new(big.Int).Lsh(big.NewInt(1), uint(k)), 0))
		}
		k := g.r.Intn(48)
		return mk(false, new(big.Int).Exp(big.NewInt(5), big.NewInt(int64(k)), nil), -k)
	case 4:
		return g.cohort(mk(false, big.NewInt(1), g.r.Intn(12288)-6176))
	case 5: // close to 1 from a 34-digit neighbourhood
		c := new(big.Int).Add(pow10(33), new(big.Int).Rand(g.r, pow10(g.r.Intn(33)+1)))
		if g.r.Intn(2) == 0 {
			c = new(big.Int).Sub(pow10(34), new(big.Int).Rand(g.r, pow10(g.r.Intn(33)+1)))
			return mk(false, c, -34)
		}
		return mk(false, c, -33)
	case 6:
		return mk(false, randCoef(g.r), randExp(g.r))
	default:
		return mk(false, randCoef(g.r), -40+g.r.Intn(60))
	}
}

func (g *Gen) log1pArg() d128.Decimal {
	switch g.r.Intn(8) {
	case 6, 7: // 1 + x in [0.9, 1.2]
		v := g.r.Intn(300) - 100
		c := new(big.Int).Add(new(big.Int).Mul(big.NewInt(int64(absInt(v))), pow10(30)), new(big.Int).Rand(g.r, pow10(30)))
		if v < 0 && c.Cmp(pow10(32)) >= 0 {
			c = new(big.Int).Sub(pow10(32), big.NewInt(1))
		}
		return mk(v < 0, c, -33)
	case 0: // tiny
		c := randDigits(g.r, 1+g.r.Intn(34))
		return mk(g.r.Intn(2) == 0, c, clampExp(-g.r.Intn(6100)-len(c.String())))
	case 1: // just above -1
		k := 1 + g.r.Intn(34)
		c := new(big.Int).Sub(pow10(k), big.NewInt(int64(1+g.r.Intn(9))))
		return mk(true, c, -k)
	case 2:
		return mk(false, randCoef(g.r), randExp(g.r))
	default:
		c := randDigits(g.r, 1+g.r.Intn(34))
		neg := g.r.Intn(2) == 0
		e := -len(c.String()) - g.r.Intn(40)
		if !neg && g.r.Intn(2) == 0 {
			e = -len(c.String()) + g.r.Intn(10)
		}
		return mk(neg, c, e)
	}
}

func genC16(g *Gen) {
	g.setMode(0)
	ops := []string{"Exp", "Exp2", "Exp10", "Expm1", "Log", "Log2", "Log10", "Log1p"}
	// every integer argument in [-300, 300] (and a half-step offset): the internal case splits of the exponential functions
	// sit at particular magnitudes of e^x (where it vanishes against 1, where digits are dropped), a few units wide
	sweepOps := []string{"Expm1", "Exp"}
	if g.thorough() {
		sweepOps = []string{"Expm1", "Exp", "Exp2", "Exp10"}
	}
	g.gridRun(601*len(sweepOps), 0.3, func(i int) {
		n := i%601 - 300
		c := big.NewInt(int64(absInt(n)))
		x := mk(n < 0, c, 0)
		if g.r.Intn(2) == 0 && n != 0 {
			x = mk(n < 0, new(big.Int).Add(new(big.Int).Mul(c, big.NewInt(10)), big.NewInt(int64(g.r.Intn(10)))), -1)
		}
		g.un(sweepOps[i/601], x)
	})
	// the band of 35-digit coefficients and the other special coefficients at eight consecutive exponents (all residues of
	// the biased exponent), magnitudes where every function has a finite non-trivial result
	g.gridRun(len(gridCoefs)*8, 0.1, func(i int) {
		c := gridCoefs[i%len(gridCoefs)]
		if c.Sign() == 0 {
			return
		}
		e := -len(c.String()) - 3 + i/len(gridCoefs)
		g.un(ops[g.r.Intn(len(ops))], mk(false, c, e+g.r.Intn(2)*4))
		g.un(ops[g.r.Intn(4)], mk(true, c, e))
	})
	// arguments whose leading digits are those of 2^64, 2^128, 2^192, 2^256 (the same digits as 2^W / 10, 2^W / 100: where a
	// scaling loop "multiply by ten while it still fits W bits" stops), cut to 19, 20 and 34 digits, exactly and one unit
	// above, at three magnitudes: the scaled argument lands in the narrow window where an off-by-a-carry bound wraps
	{
		lens := []int{19, 20, 34}
		exps := []string{"Exp", "Expm1", "Exp2", "Exp10"}
		g.gridRun(4*len(lens)*2*3*2, 0.08, func(i int) {
			W := []uint{64, 128, 192, 256}[i%4]
			n := lens[(i/4)%3]
			up := (i / 12) % 2
			mag := (i / 24) % 3 // 0.d, d.d, dd.d
			op := []string{"Exp", "Expm1"}[i/72]
			if g.thorough() && g.r.Intn(2) == 0 {
				op = exps[g.r.Intn(4)]
			}
			ds := new(big.Int).Lsh(big.NewInt(1), W).String()
			for len(ds) < n {
				ds += "0"
			}
			c, _ := new(big.Int).SetString(ds[:n], 10)
			c.Add(c, big.NewInt(int64(up)))
			g.un(op, mk(g.r.Intn(3) == 0, c, -n+mag))
		})
	}
	// Exp2 of integers from 250 up (2^n no longer fits 256 bits and is cut down in steps) and Exp10 of integers at both range ends
	g.gridRun(60+12, 0.05, func(i int) {
		if i < 60 {
			n := 250 + i
			if i >= 52 {
				n = []int{1000, 1023, 1024, 5000, 12345, 20000, 20413, 20414}[i-52]
			}
			x := mk(g.r.Intn(4) == 0, big.NewInt(int64(n)), 0)
			if g.r.Intn(3) == 0 {
				x = mk(false, big.NewInt(int64(n*10+g.r.Intn(10))), -1)
			}
			g.un("Exp2", x)
			return
		}
		n := []int{6100, 6111, 6112, 6140, 6144, 6145, -6170, -6176, -6177, -6178, 300, -300}[i-60]
		g.un("Exp10", mk(n < 0, big.NewInt(int64(absInt(n))), 0))
	})
	// Exp2 / Exp10 split the argument into integer and fraction by reversing the fraction's digits: arguments whose fraction,
	// read backwards, is a word-structured integer (h * 2^64 + {0, 1, 5, all ones}) * 10^k + r
	two64 := new(big.Int).Lsh(big.NewInt(1), 64)
	revKs := []int{0, 1, 2, 5, 8}
	g.gridRun(len(wordLows)*len(revKs)*2*2, 0.06, func(i int) {
		l, k, h, opi := i%len(wordLows), revKs[(i/len(wordLows))%len(revKs)], 1+2*((i/len(wordLows)/len(revKs))%2), i/len(wordLows)/len(revKs)/2
		w := new(big.Int).Add(new(big.Int).Mul(big.NewInt(int64(h)), two64), wordLows[l])
		c := new(big.Int).Mul(w, pow10(k))
		if k > 0 {
			c.Add(c, randDigits(g.r, k))
		}
		s := c.String()
		rev := make([]byte, len(s))
		for j := range s {
			rev[len(s)-1-j] = s[j]
		}
		ip := []int64{1, 3, 7, 12, 100, 731}[g.r.Intn(6)]
		if len(s) > 30 {
			ip = []int64{1, 3, 7}[g.r.Intn(3)]
		}
		xc, _ := new(big.Int).SetString(big.NewInt(ip).String()+string(rev), 10)
		if xc.Cmp(cMax) > 0 {
			return
		}
		g.un([]string{"Exp2", "Exp10"}[opi], mk(g.r.Intn(3) == 0, xc, -len(s)))
	})
	for !g.w.full() {
		op := ops[g.r.Intn(len(ops))]
		switch op {
		case "Exp", "Exp2", "Exp10", "Expm1":
			g.un(op, g.expArg(op))
		case "Log1p":
			g.un(op, g.log1pArg())
		default:
			g.un(op, g.logArg(op))
		}
	}
}

// ---- C18 -------------------------------------------------------------------

var ln2Big, ln10Big *big.Float

func init() {
	ln2Big, _ = new(big.Float).SetPrec(400).SetString("0.693147180559945309417232121458176568075500134360255254120680009493393621969694715605863326996418687542147932")
	ln10Big, _ = new(big.Float).SetPrec(400).SetString("2.302585092994045684017991454684364207601101488628772976033327900967572609677352480235997205089598298341967784")
}

// lnApprox: an (untrusted) ~70-digit approximation of ln(c * 10^e), c > 0. The specification certifies it with its
// own exponential enclosure before using it, so an error here can only make a step undecided, never wrong.
func lnApprox(c *big.Int, e int) *big.Float {
	const prec = 400
	s := c.String()
	// m in [1, 10): c = m * 10^(len-1)
	m := new(big.Float).SetPrec(prec).SetInt(c)
	k := len(s) - 1
	m.Quo(m, new(big.Float).SetPrec(prec).SetInt(pow10(k)))
	// reduce to [0.75, 1.5] by powers of two
	j := 0
	for m.Cmp(big.NewFloat(1.5)) > 0 {
		m.Quo(m, big.NewFloat(2))
		j++
	}
	// ln m = 2 atanh(z), z = (m-1)/(m+1)
	one := new(big.Float).SetPrec(prec).SetInt64(1)
	z := new(big.Float).SetPrec(prec).Sub(m, one)
	z.Quo(z, new(big.Float).SetPrec(prec).Add(m, one))
	z2 := new(big.Float).SetPrec(prec).Mul(z, z)
	sum := new(big.Float).SetPrec(prec)
	term := new(big.Float).SetPrec(prec).Set(z)
	for n := 1; n < 400; n += 2 {
		t := new(big.Float).SetPrec(prec).Quo(term, new(big.Float).SetPrec(prec).SetInt64(int64(n)))
		sum.Add(sum, t)
		term.Mul(term, z2)
		if term.Sign() == 0 || (term.MantExp(nil)-sum.MantExp(nil) < -300 && sum.Sign() != 0) {
			break
		}
	}
	sum.Mul(sum, big.NewFloat(2))
	sum.Add(sum, new(big.Float).SetPrec(prec).Mul(ln2Big, new(big.Float).SetPrec(prec).SetInt64(int64(j))))
	sum.Add(sum, new(big.Float).SetPrec(prec).Mul(ln10Big, new(big.Float).SetPrec(prec).SetInt64(int64(k+e))))
	return sum
}

// witness record {neg, l, e}: W = (-1)^neg * l * 10^e with about 60 significant digits
func lnWitness(x d128.Decimal) map[string]any {
	kind, _, c, e := unmk(x)
	if kind != 0 || c.Sign() == 0 {
		return nil
	}
	w := lnApprox(c, e)
	if w.Sign() == 0 {
		return map[string]any{"neg": false, "l": []int{}, "e": 0}
	}
	txt := w.Text('e', 59) // d.ddd...e+XX
	var mant, exp string
	for i := 0; i < len(txt); i++ {
		if txt[i] == 'e' {
			mant, exp = txt[:i], txt[i+1:]
		}
	}
	neg := false
	if mant[0] == '-' {
		neg = true
		mant = mant[1:]
	}
	digs := mant[:1] + mant[2:]
	l, _ := new(big.Int).SetString(digs, 10)
	ex, _ := new(big.Int).SetString(exp, 10)
	return map[string]any{"neg": neg, "l": bigN(l)["l"], "e": int(ex.Int64()) - 59}
}

func (g *Gen) powGeneral() (x, y d128.Decimal) {
	neg := false
	var xc, yc *big.Int
	var xe, ye int
	switch g.r.Intn(7) {
	case 0: // base near 1, large exponent
		k := 1 + g.r.Intn(33)
		xc = new(big.Int).Add(pow10(k), big.NewInt(int64(g.r.Intn(19)-9)))
		xe = -k
		yc = randDigits(g.r, 1+g.r.Intn(k+3))
		ye = g.r.Intn(3) - 1
	case 1: // results near the overflow / underflow thresholds: x^y ~ 10^(+-6150)
		xc = randDigits(g.r, 1+g.r.Intn(20))
		xe = g.r.Intn(40) - 20
		lx := float64(len(xc.String())-1+xe) + 0.3
		if lx == 0 {
			lx = 0.3
		}
		target := float64([]int{6140, 6146, 6150, -6170, -6177, -6180, -6215}[g.r.Intn(7)])
		yv := target / lx
		yc = big.NewInt(int64(math.Abs(yv) * 1000))
		ye = -3
		if yv < 0 {
			yc.Neg(yc)
		}
	case 5: // negative bases with huge integer exponents, odd and even: the sign must survive overflow and underflow
		neg = true
		xc = randDigits(g.r, 1+g.r.Intn(6))
		xe = g.r.Intn(5) - 3
		yc = new(big.Int).Add(new(big.Int).Mul(big.NewInt(int64(1+g.r.Intn(9))), pow10(5+g.r.Intn(20))), big.NewInt(int64(g.r.Intn(4))))
		ye = 0
		if g.r.Intn(2) == 0 {
			yc.Neg(yc)
		}
	case 2: // integer exponents, negative bases
		neg = g.r.Intn(2) == 0
		xc = randDigits(g.r, 1+g.r.Intn(10))
		xe = g.r.Intn(7) - 3
		yc = big.NewInt(int64(g.r.Intn(200) - 100))
		ye = 0
	case 3: // half-integer exponents
		xc = randDigits(g.r, 1+g.r.Intn(34))
		xe = g.r.Intn(41) - 20
		yc = big.NewInt(int64(g.r.Intn(400)*10 + 5 - 2000))
		ye = -1
	default:
		xc = randCoef(g.r)
		xe = g.r.Intn(81) - 60
		yc = randDigits(g.r, 1+g.r.Intn(20))
		ye = -len(yc.String()) + g.r.Intn(5) - 1
		if g.r.Intn(2) == 0 {
			yc.Neg(yc)
		}
	}
	if xc.Sign() <= 0 {
		xc = big.NewInt(3)
	}
	yneg := yc.Sign() < 0
	yc = new(big.Int).Abs(yc)
	if yc.Sign() == 0 {
		yc = big.NewInt(2)
	}
	if xc.Cmp(cMax) > 0 {
		xc = new(big.Int).Set(cMax)
	}
	if yc.Cmp(cMax) > 0 {
		yc = new(big.Int).Set(cMax)
	}
	return mk(neg, xc, clampExp(xe)), mk(yneg, yc, clampExp(ye))
}

func (g *Gen) pow(x, y d128.Decimal, m int, wm bool) {
	e := Ev{"op": "Pow", "wm": wm}
	if wm {
		e["m"] = m
	}
	e.setDec("x", x)
	e.setDec("y", y)
	if w := lnWitness(x); w != nil {
		e["w"] = w
	}
	g.emit(e)
}

// negative bases raised to integers (odd and even) whose exact power lies just inside the range, in the band where the
// overflow / underflow shows only in the last reduction, and far outside: the sign (-1)^n must survive on Inf and on zero
func (g *Gen) powSignGrid(share float64) {
	bases := []struct {
		c int64
		e int
	}{{2, 0}, {3, 0}, {7, 0}, {12345, 0}, {15, -1}, {5, -1}, {3, -2}, {15, 3080}, {2, -3000}}
	targets := []int{6140, 6146, 6150, 6200, 6225, 6230, 7000, 40000, 1000000, -6170, -6178, -6200, -6250, -6300, -7000, -40000, -1000000}
	g.gridRun(len(bases)*len(targets), share, func(i int) {
		b, tgt := bases[i%len(bases)], targets[i/len(bases)]
		lg := math.Log10(float64(b.c)) + float64(b.e)
		n := int64(math.Round(float64(tgt) / lg))
		if n == 0 {
			n = 1
		}
		x := mk(true, big.NewInt(b.c), b.e)
		for _, k := range []int64{n, n + 1} {
			y := g.cohort(mk(k < 0, big.NewInt(absInt64(k)), 0))
			g.pow(x, y, g.r.Intn(6), true)
		}
	})
}

// integer exponents written with every number of redundant trailing zeros (n * 10^z * 10^-z, z = 0..33): whether the
// exponent is an integer, and odd, must not depend on its encoding -- against the bases whose result sign depends on it
func (g *Gen) powPaddedIntGrid(share float64) {
	bases := []d128.Decimal{mk(true, new(big.Int), 0), mk(true, new(big.Int), 17), d128.Inf(-1), mk(true, big.NewInt(2), 0), mk(true, big.NewInt(15), -1), mk(false, big.NewInt(100), 0)}
	ns := []int64{3, 4, 21}
	g.gridRun(len(bases)*len(ns)*34, share, func(i int) {
		x := bases[i%len(bases)]
		n := ns[(i/len(bases))%len(ns)]
		z := i / len(bases) / len(ns)
		yc := new(big.Int).Mul(big.NewInt(n), pow10(z))
		if yc.Cmp(cMax) > 0 {
			return
		}
		m := g.r.Intn(6)
		g.pow(x, mk(false, yc, -z), m, true)
		g.pow(x, mk(true, yc, -z), m, true)
	})
}

func absInt64(v int64) int64 {
	if v < 0 {
		return -v
	}
	return v
}

func genC18(g *Gen) {
	g.setMode(0)
	g.powSignGrid(0.06)
	g.powPaddedIntGrid(0.1)
	// the plain form Pow under every DefaultRoundingMode on the cases where the mode decides the result exactly: the
	// reciprocal (y = -1) and powers of ten that land below the smallest exponent
	g.gridRun(16, 0.04, func(i int) {
		var x, y d128.Decimal
		if i < 10 {
			x = mk(i%2 == 1, big.NewInt(int64([]int{3, 6, 7, 9, 11}[i/2])), g.r.Intn(5)-2)
			y = g.cohort(mk(true, big.NewInt(1), 0))
		} else {
			kn := [][2]int{{-1, 6177}, {-3, 2059}, {-2059, 3}, {-2, 3089}, {-3089, 2}, {-1, 6180}}[i-10]
			x = mk(false, big.NewInt(1), kn[0])
			y = mk(false, big.NewInt(int64(kn[1])), 0)
		}
		g.allDefaultModes("Pow", x, y)
	})
	// exponents that only LOOK like the shortcut values when one 64-bit word of their coefficient is inspected:
	// (h * 2^64 + l) * 10^e with l = 5, e = -1 (not one half), l = 1 (not one), l = 0; powers of ten and other bases
	{
		two64 := new(big.Int).Lsh(big.NewInt(1), 64)
		xs := []d128.Decimal{mk(false, big.NewInt(100), 0), mk(false, big.NewInt(1), -2), mk(false, big.NewInt(1), 4), mk(false, big.NewInt(10), 0),
			mk(false, big.NewInt(1), 0), mk(false, big.NewInt(3), 0), mk(true, big.NewInt(2), 0), mk(false, big.NewInt(999), -3)}
		ls := []int64{5, 1, 0, 2}
		g.gridRun(len(xs)*len(ls)*2*2, 0.08, func(i int) {
			x := xs[i%len(xs)]
			j := i / len(xs)
			l, e, h := ls[j%len(ls)], -((j / len(ls)) % 2), int64(1+2*(j/len(ls)/2))
			yc := new(big.Int).Add(new(big.Int).Mul(big.NewInt(h), two64), big.NewInt(l))
			g.pow(x, mk(false, yc, e), g.r.Intn(6), true)
			g.pow(x, mk(true, yc, e), g.r.Intn(6), true)
		})
	}
	// y = +-1 in every encoding of one (10^k * 10^-k), every mode, bases that are not powers of ten: Pow(x, 1) = x and
	// Pow(x, -1) = the rounded reciprocal exactly
	g.gridRun(35*2, 0.2, func(i int) {
		k := i / 2
		y := mk(i%2 == 1, pow10(k), -k)
		x := mk(g.r.Intn(2) == 0, big.NewInt(int64([]int{3, 4, 7, 6, 9, 11, 13}[g.r.Intn(7)])), g.r.Intn(7)-3)
		if g.r.Intn(3) == 0 {
			x = mk(g.r.Intn(2) == 0, g.fullCoef(), g.r.Intn(41)-40)
		}
		for m := 0; m < 6; m++ {
			g.pow(x, y, m, true)
		}
		// and the base 1 in every encoding, any exponent
		g.pow(mk(false, pow10(k), -k), randFinite(g.r), g.r.Intn(6), true)
	})
	// general-path results at both ends of the range: x^y with y ln x / ln 10 = T for T around the smallest subnormal, the
	// flush threshold and the overflow threshold, direct and through the reciprocal branch
	targets := []int{-6180, -6178, -6177, -6176, -6175, -6174, -6172, -6170, -6168, -6165, -6150, 6100, 6140, 6143, 6144, 6145, 6146}
	bases := []float64{2, 0.5, 3, 0.7, 1.5, 7, 0.03, 123.456}
	g.gridRun(len(targets)*len(bases), 0.12, func(i int) {
		tgt, b := targets[i%len(targets)], bases[i/len(targets)]
		yv := float64(tgt) * math.Ln10 / math.Log(b)
		yv += g.r.Float64()*2 - 1
		ys := strconv.FormatFloat(yv, 'f', g.r.Intn(4), 64)
		y, err1 := d128.Parse(ys)
		x, err2 := d128.Parse(strconv.FormatFloat(b, 'g', -1, 64))
		if err1 != nil || err2 != nil {
			return
		}
		if g.r.Intn(3) == 0 && y.Equal(d128.Trunc(y)) {
			x = x.Neg()
		}
		g.pow(x, y, g.r.Intn(6), true)
	})
	// powers of ten raised to integers far too large for the range (the exponent product leaves 64 bits)
	bigYs := []string{"500000", "350000", "30000000", "12340000", "2147484", "4294968", "1000000000000000", "1500000000000001", "5000000000000000001", "4503599627370496", "6148914691236517206", "18446744073709551615", "18446744073709551617",
		"9223372036854775807", "9223372036854775808", "1e19", "1e20", "3e33", "9999999999999999999999999999999999", "1e6000"}
	g.gridRun(len(bigYs)*4, 0.1, func(i int) {
		y, err := d128.Parse(bigYs[i/4])
		if err != nil {
			return
		}
		xe := []int{2, -10, 4096, -3, -6176, 6111, 100, -250}[(i+i/4)%8]
		x := mk(g.r.Intn(2) == 0, big.NewInt(1), xe)
		g.pow(x, y, g.r.Intn(6), true)
		g.pow(x, y.Neg(), g.r.Intn(6), true)
		g.pow(g.cohort(x), y, g.r.Intn(6), true)
		// the same exponents under bases that are not powers of ten, above and below one (the general path must give up
		// before it multiplies)
		z := []d128.Decimal{mk(false, big.NewInt(3), 0), mk(false, big.NewInt(5), -1), mk(true, big.NewInt(7), 0), mk(false, big.NewInt(10000001), -7)}[i%4]
		g.pow(z, y, g.r.Intn(6), true)
		g.pow(z, y.Neg(), g.r.Intn(6), true)
	})
	// the logarithm's table slots amplified by the exponent: the argument reduction of ln x works on the two leading digits
	// of the coefficient (90 slots), and an error of 1e-35 in ln x that Log itself hides inside its ulp becomes tens of ulps
	// in x^y for |y| in the thousands.  Every slot at its bottom, middle and top, exponent sign both ways.
	g.gridRun(90*3*2, 0.3, func(i int) {
		slot, pos, neg := 10+i/6, (i/2)%3, i%2 == 1
		nd := 3 + g.r.Intn(31)
		var frac *big.Int
		switch pos {
		case 0:
			frac = big.NewInt(int64(1 + g.r.Intn(9)))
		case 1:
			frac = new(big.Int).Add(new(big.Int).Div(pow10(nd-2), big.NewInt(2)), randDigits(g.r, 1+g.r.Intn(nd-2)))
			frac.Mod(frac, pow10(nd-2))
		default:
			frac = new(big.Int).Sub(pow10(nd-2), big.NewInt(int64(1+g.r.Intn(9))))
		}
		xc := new(big.Int).Add(new(big.Int).Mul(big.NewInt(int64(slot)), pow10(nd-2)), frac)
		k := []int{0, 0, -3, 4}[g.r.Intn(4)]
		x := mk(false, xc, k-(nd-1))
		// |y * log10 x| stays below about 5000 so that the result is in range
		lg := math.Log10(float64(slot)/10) + float64(k)
		if math.Abs(lg) < 0.02 {
			lg = 0.02
		}
		ymax := 5000 / math.Abs(lg)
		if ymax > 40000 {
			ymax = 40000
		}
		yv := int64(ymax * (0.5 + g.r.Float64()/2))
		y := mk(neg, big.NewInt(yv*10+int64(g.r.Intn(10))), -1)
		g.pow(x, y, 0, true)
	})
	for !g.w.full() {
		switch g.r.Intn(10) {
		case 0, 1: // the shortcut ladder with cohort variants
			x, y := g.classRep(), g.classRep()
			if g.powSpecial(x, y) {
				g.pow(g.variant(x), g.variant(y), g.r.Intn(6), true)
			}
		case 2, 3: // powers of ten: integer and +-0.5 exponents, results around both ends of the range
			k := g.r.Intn(200) - 100
			if g.r.Intn(2) == 0 {
				k = []int{1, -1, 2, -2, 3, -3, 4, 5, -5, 7, 10, -10, 34, -34, 100, 6111, -6176}[g.r.Intn(17)]
			}
			x := g.cohort(mk(g.r.Intn(4) == 0, big.NewInt(1), k))
			var y d128.Decimal
			switch g.r.Intn(4) {
			case 0:
				y = mk(g.r.Intn(2) == 0, big.NewInt(5), -1)
			case 1:
				n := 6111
				if k != 0 {
					// k*n around the top (6111, 6145) or the bottom (6176, 6211) of the range
					t := []int{6100, 6109, 6110, 6111, 6112, 6140, 6144, 6145, 6146, 6150, 6170, 6175, 6176, 6177, 6180, 6210, 6211, 6212}[g.r.Intn(18)]
					n = t / absInt(k)
					if g.r.Intn(3) == 0 {
						n++
					}
				}
				y = g.cohort(mk(false, big.NewInt(int64(n)), 0))
			case 2:
				y = mk(false, randDigits(g.r, 1+g.r.Intn(30)), g.r.Intn(10))
			default:
				y = g.cohort(mk(false, big.NewInt(int64(g.r.Intn(100))), 0))
			}
			for m := 0; m < 6; m++ {
				g.pow(x, y, m, true)
			}
		case 5: // powers of ten whose exact result lies at the very ends of the range
			k := []int{1, 1, -1, -1, 2, -2, 5, -5, 10, -10}[g.r.Intn(10)]
			t := 6100 + g.r.Intn(51)
			if k < 0 {
				t = 6165 + g.r.Intn(50)
			}
			n := t / absInt(k)
			x := g.cohort(mk(g.r.Intn(6) == 0, big.NewInt(1), k))
			y := g.cohort(mk(false, big.NewInt(int64(n)), 0))
			for m := 0; m < 6; m++ {
				g.pow(x, y, m, true)
			}
		case 4: // reciprocal: y = -1 in every mode
			x := randFinite(g.r)
			y := g.cohort(mk(true, big.NewInt(1), 0))
			for m := 0; m < 6; m++ {
				g.pow(x, y, m, true)
			}
		default:
			x, y := g.powGeneral()
			g.pow(x, y, g.r.Intn(6), true)
			if g.r.Intn(6) == 0 {
				g.setMode(g.r.Intn(6))
				g.pow(x, y, 0, false)
				g.setMode(0)
			}
		}
	}
}

func absInt(v int) int {
	if v < 0 {
		return -v
	}
	return v
}
