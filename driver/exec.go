package main

import (
	"fmt"
	"os"
	"strconv"
	"time"

	d128 "github.com/woodsbury/decimal128"
)

func setRes(e Ev, k string, d d128.Decimal) {
	e.setDec(k, d)
	pk := "pl"
	if k != "r" {
		pk = "pl" + k[1:]
	}
	if d.IsNaN() {
		e[pk] = d.Payload().String()
	} else {
		e[pk] = ""
	}
}

// exec runs the call described by e against the real library and records the
// outputs (and a recovered panic, and the shared DefaultRoundingMode after it).
func exec(e Ev) {
	if watchdog <= 0 {
		execInner(e)
		return
	}
	in := make(Ev, len(e)+1)
	for k, v := range e {
		in[k] = v
	}
	done := make(chan struct{})
	go func() {
		defer close(done)
		execInner(e)
	}()
	t := time.NewTimer(watchdog)
	select {
	case <-done:
		t.Stop()
	case <-t.C:
		// the call did not return: record it (inputs only) and stop -- the runaway goroutine cannot be cancelled
		in["timeout"] = true
		in["dm"] = 0
		onTimeout(in)
	}
}

// watchdog: a call that has not returned after this long is recorded as non-terminating (C20). Ordinary calls take
// microseconds, the most expensive legitimate ones (100000-digit formats, 20000-bit floats) well under a second.
var watchdog = func() time.Duration {
	if v, err := strconv.Atoi(os.Getenv("VERIF_WATCHDOG_S")); err == nil {
		return time.Duration(v) * time.Second
	}
	return 120 * time.Second
}()

// a call that does not return ends the run: it is written to the current trace (so that what was recorded is validated
// and the call is rejected there) and the process exits with timeoutExit
var timeoutExit = 3
var onTimeout = func(in Ev) {
	fmt.Fprintln(os.Stderr, "driver: call did not terminate:", in.str("op"))
	if curWriter != nil {
		curWriter.put(in)
		curWriter.close()
	}
	os.Exit(timeoutExit)
}

func execInner(e Ev) {
	defer func() {
		if r := recover(); r != nil {
			e["panic"] = fmt.Sprint(r)
		}
		e["dm"] = int(d128.DefaultRoundingMode)
	}()
	op := e.str("op")
	if f, ok := execTable[op]; ok {
		f(e)
		return
	}
	panic("driver: unknown op " + op)
}

var execTable = map[string]func(Ev){}

func mode(e Ev) d128.RoundingMode { return d128.RoundingMode(e.int("m")) }

func init() {
	execTable["SetMode"] = func(e Ev) { d128.DefaultRoundingMode = mode(e) }
	bin := func(name string, wm func(x, y d128.Decimal, m d128.RoundingMode) d128.Decimal, def func(x, y d128.Decimal) d128.Decimal) {
		execTable[name] = func(e Ev) {
			x, y := e.dec("x"), e.dec("y")
			if e.bool("wm") {
				setRes(e, "r", wm(x, y, mode(e)))
			} else {
				setRes(e, "r", def(x, y))
			}
		}
	}
	bin("Add", d128.Decimal.AddWithMode, d128.Decimal.Add)
	bin("Sub", d128.Decimal.SubWithMode, d128.Decimal.Sub)
	bin("Mul", d128.Decimal.MulWithMode, d128.Decimal.Mul)
	bin("Quo", d128.Decimal.QuoWithMode, d128.Decimal.Quo)
	bin("Pow", d128.Decimal.PowWithMode, d128.Decimal.Pow)
	execTable["QuoRem"] = func(e Ev) {
		x, y := e.dec("x"), e.dec("y")
		var q, r d128.Decimal
		if e.bool("wm") {
			q, r = x.QuoRemWithMode(y, mode(e))
		} else {
			q, r = x.QuoRem(y)
		}
		setRes(e, "r", q)
		setRes(e, "r2", r)
	}
}
