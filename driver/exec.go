package main

import (
	"fmt"

	d128 "github.com/woodsbury/decimal128"
)

func setRes(e Ev, k string, d d128.Decimal) {
	e.setDec(k, d)
	pk := "pl"
	if k != "r" {
		pk = "pl" + k[1:]
	}
	if d.IsNaN() {
		e[pk] = d.Payload().String()
	} else {
		e[pk] = ""
	}
}

// exec runs the call described by e against the real library and records the
// outputs (and a recovered panic, and the shared DefaultRoundingMode after it).
func exec(e Ev) {
	defer func() {
		if r := recover(); r != nil {
			e["panic"] = fmt.Sprint(r)
		}
		e["dm"] = int(d128.DefaultRoundingMode)
	}()
	op := e.str("op")
	if f, ok := execTable[op]; ok {
		f(e)
		return
	}
	panic("driver: unknown op " + op)
}

var execTable = map[string]func(Ev){}

func mode(e Ev) d128.RoundingMode { return d128.RoundingMode(e.int("m")) }

func init() {
	execTable["SetMode"] = func(e Ev) { d128.DefaultRoundingMode = mode(e) }
	bin := func(name string, wm func(x, y d128.Decimal, m d128.RoundingMode) d128.Decimal, def func(x, y d128.Decimal) d128.Decimal) {
		execTable[name] = func(e Ev) {
			x, y := e.dec("x"), e.dec("y")
			if e.bool("wm") {
				setRes(e, "r", wm(x, y, mode(e)))
			} else {
				setRes(e, "r", def(x, y))
			}
		}
	}
	bin("Add", d128.Decimal.AddWithMode, d128.Decimal.Add)
	bin("Sub", d128.Decimal.SubWithMode, d128.Decimal.Sub)
	bin("Mul", d128.Decimal.MulWithMode, d128.Decimal.Mul)
	bin("Quo", d128.Decimal.QuoWithMode, d128.Decimal.Quo)
	bin("Pow", d128.Decimal.PowWithMode, d128.Decimal.Pow)
	execTable["QuoRem"] = func(e Ev) {
		x, y := e.dec("x"), e.dec("y")
		var q, r d128.Decimal
		if e.bool("wm") {
			q, r = x.QuoRemWithMode(y, mode(e))
		} else {
			q, r = x.QuoRem(y)
		}
		setRes(e, "r", q)
		setRes(e, "r2", r)
	}
}
