package main

import (
	"bufio"
	"encoding/json"
	"fmt"
	"os"
)

// output fields are dropped and recomputed when a recorded session is re-executed
var outputFields = []string{"r", "r2", "pl", "pl2", "dm", "panic", "i", "timeout"}

// replay <in.ndjson> <out.ndjson>: re-execute the recorded calls against the library built
// from the current tree and write the fresh trace.
func replayMain(args []string) {
	if len(args) != 2 {
		fmt.Fprintln(os.Stderr, "usage: driver replay in out")
		os.Exit(2)
	}
	f, err := os.Open(args[0])
	if err != nil {
		fmt.Fprintln(os.Stderr, err)
		os.Exit(2)
	}
	defer f.Close()
	w := newWriter(args[1], 0)
	timeoutExit = 0 // a replayed session that does not terminate is still a complete replay: the last event says so
	sc := bufio.NewScanner(f)
	sc.Buffer(make([]byte, 1<<20), 1<<28)
	for sc.Scan() {
		if len(sc.Bytes()) == 0 {
			continue
		}
		var e Ev
		if err := json.Unmarshal(sc.Bytes(), &e); err != nil {
			fmt.Fprintln(os.Stderr, err)
			os.Exit(2)
		}
		outs := outputFields
		if o, ok := e["_out"].([]any); ok {
			outs = nil
			for _, x := range o {
				outs = append(outs, x.(string))
			}
		}
		for _, k := range outs {
			delete(e, k)
		}
		exec(e)
		w.put(e)
	}
	w.close()
}
