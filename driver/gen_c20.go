package main

import (
	"encoding/json"
	"math"
	"math/big"
	"reflect"
	"strings"
	"sync"

	d128 "github.com/woodsbury/decimal128"
)

func cloneEv(e Ev) Ev {
	b, _ := json.Marshal(e)
	var c Ev
	json.Unmarshal(b, &c)
	return c
}

// outputs of an executed event: everything that exec added
func outputsOf(in, out Ev) map[string]any {
	o := map[string]any{}
	for k, v := range out {
		if _, ok := in[k]; !ok && k != "i" {
			o[k] = v
		}
	}
	return o
}

func sameOutputs(a, b map[string]any) bool {
	ja, _ := json.Marshal(a)
	jb, _ := json.Marshal(b)
	return string(ja) == string(jb)
}

// emitDet executes the call twice (determinism) and records it
func (g *Gen) emitDet(e Ev) Ev {
	in := cloneEv(e)
	exec(e)
	again := cloneEv(in)
	exec(again)
	e["det"] = sameOutputs(outputsOf(in, e), outputsOf(in, again))
	g.w.put(e)
	return e
}

// totality sweep: every entry point on raw random bit patterns and extreme scalars
func (g *Gen) totalCall() Ev {
	x := rawDec(g.r.Uint64(), g.r.Uint64())
	switch g.r.Intn(4) {
	case 0:
		x = randAny(g.r)
	case 1: // stored exponents at the edges of the implementation's power-of-ten tables and word sizes
		e := []int{-41, -40, -39, -38, -37, -36, -35, -34, -33, -20, -19, -18, -17, -1, 0, 1, 17, 18, 19, 20, 33, 34, 35, 36, 37, 38, 39, 40, 41,
			eMin, eMin + 1, eMax - 1, eMax}[g.r.Intn(33)]
		c := randCoef(g.r)
		if g.r.Intn(3) == 0 {
			c = big.NewInt(int64(g.r.Intn(3)))
		}
		x = mk(g.r.Intn(2) == 0, c, e)
	}
	y := rawDec(g.r.Uint64(), g.r.Uint64())
	if g.r.Intn(3) == 0 {
		y = randAny(g.r)
	}
	extreme := []int{0, 1, -1, 35, -35, 6176, -6176, 7000, -7000, 100000, -100000, math.MaxInt32, math.MinInt32, math.MaxInt64, math.MinInt64, math.MinInt64 + 1}
	m := g.r.Intn(6)
	if g.r.Intn(10) == 0 {
		m = []int{6, 7, 100, 255}[g.r.Intn(4)] // outside the six named modes: must still terminate without panicking
	}
	ops1 := []string{"Neg", "Abs", "IsZero", "IsNaN", "Signbit", "Sign", "Canonical", "String", "MarshalBinary", "MarshalJSON", "Frexp",
		"Exp", "Exp2", "Exp10", "Expm1", "Log", "Log2", "Log10", "Log1p", "Sqrt", "Cbrt", "PkgRound", "PkgTrunc", "PkgCeil", "PkgFloor", "Float64", "Float32", "Payload", "Rat", "Int"}
	ops2 := []string{"Add", "Sub", "Mul", "Quo", "QuoRem", "Pow", "Cmp", "CmpAbs", "Equal", "Compare", "Min", "Max"}
	var e Ev
	switch g.r.Intn(12) {
	case 0, 1, 2:
		e = Ev{"op": ops1[g.r.Intn(len(ops1))]}
		e.setDec("x", x)
	case 3, 4, 5:
		op := ops2[g.r.Intn(len(ops2))]
		e = Ev{"op": op}
		e.setDec("x", x)
		e.setDec("y", y)
		switch op {
		case "Add", "Sub", "Mul", "Quo", "QuoRem", "Pow":
			e["wm"] = true
			e["m"] = m
		}
		if op == "Pow" {
			if w := lnWitness(x); w != nil {
				e["w"] = w
			}
		}
	case 6:
		e = Ev{"op": []string{"Round", "Ceil", "Floor"}[g.r.Intn(3)], "wm": true, "m": m}
		e.setDec("x", x)
		setInt(e, "dp", extreme[g.r.Intn(len(extreme))])
	case 7:
		e = Ev{"op": "Ldexp"}
		e.setDec("x", x)
		setInt(e, "exp", extreme[g.r.Intn(len(extreme))])
	case 8:
		e = Ev{"op": "Format", "verb": int("eEfgGxv%"[g.r.Intn(8)])}
		e.setDec("x", x)
		setInt(e, "prec", []int{-1, 0, 1, 34, 35, 40, 1000, 100000, -5, math.MinInt32}[g.r.Intn(10)])
	case 9:
		specs := []string{"v", "e", "E", "f", "F", "g", "G", "s", "d", "x", "q", "T", "+.3e", "-40.10f", "040g", "#.0e", " 010.3G", "100000.3f", ".100000e", "+-# 0100.50g", "%", "",
			"5", ".", "-", "08", ".5", "+", "é", "10000.10000f", "v100", "3.4.5f", "-+ #0e"}
		sp := specs[g.r.Intn(len(specs))]
		if g.r.Intn(3) == 0 {
			var sb strings.Builder
			for i := g.r.Intn(6); i > 0; i-- {
				sb.WriteByte("+-# 0123456789.eEfFgGvx%s"[g.r.Intn(25)])
			}
			sp = sb.String()
		}
		e = Ev{"op": "Sprintf", "spec": ints([]byte(sp))}
		e.setDec("x", x)
	case 10:
		var s string
		switch g.r.Intn(4) {
		case 0:
			b := make([]byte, g.r.Intn(40))
			for i := range b {
				b[i] = byte(g.r.Intn(256))
			}
			s = string(b)
		case 1:
			s = g.mutate(g.validLiteral())
		case 2:
			if g.r.Intn(10) == 0 {
				s = g.longLiteral()
			} else {
				s = g.validLiteral()
			}
		default:
			s = g.validLiteral()
		}
		e = Ev{"op": "Parse", "via": []string{"Parse", "MustParse", "UnmarshalText"}[g.r.Intn(3)], "s": ints([]byte(s))}
	default:
		switch g.r.Intn(5) {
		case 0:
			n := []int{0, 1, 15, 16, 17, 64}[g.r.Intn(6)]
			b := make([]byte, n)
			g.r.Read(b)
			e = Ev{"op": "UnmarshalBinary", "bs": ints(b)}
			e.setDec("prev", x)
		case 1:
			b := make([]byte, g.r.Intn(30))
			g.r.Read(b)
			e = Ev{"op": "UnmarshalJSON", "s": ints(b)}
			e.setDec("prev", x)
		case 2:
			if g.r.Intn(2) == 0 {
				b := make([]byte, g.r.Intn(70))
				g.r.Read(b)
				e = Ev{"op": "Compose", "form": g.r.Intn(256), "neg": g.r.Intn(2) == 0, "sig": ints(b), "exp": int(int32(g.r.Uint32()))}
				e.setDec("prev", x)
			} else { // structured coefficients: long, reducible by powers of ten (the reduction paths)
				e = g.composeCall([]int{0, 16, 17, 32, 33, 40, 64}, []int{-6176, -40, 0, 40, 6111, math.MinInt32, math.MaxInt32})
			}
		case 3:
			e = Ev{"op": "New", "sig": bigNInt(int64(g.r.Uint64()))}
			setInt(e, "exp", extreme[g.r.Intn(len(extreme))])
		default:
			e = Ev{"op": "ToInt", "ty": []string{"int64", "int32", "uint64", "uint32"}[g.r.Intn(4)]}
			e.setDec("x", x)
		}
	}
	if g.r.Intn(8) == 0 {
		e = g.totalConv(x)
	}
	return e
}

// the conversion entry points that take or fill caller-owned big values, and the scanners
func (g *Gen) totalConv(x d128.Decimal) Ev {
	bits := []int{0, 1, 63, 64, 65, 127, 128, 129, 130, 160, 192, 200, 255, 256, 257, 300, 1000}[g.r.Intn(17)]
	v := new(big.Int)
	if bits > 0 {
		v.Rand(g.r, new(big.Int).Lsh(big.NewInt(1), uint(bits)))
		if g.r.Intn(3) == 0 {
			v.Lsh(big.NewInt(1), uint(bits))
		}
		if g.r.Intn(4) == 0 { // long runs of decimal zeros: the digit-stripping loops
			v.Mul(randDigits(g.r, 1+g.r.Intn(30)), pow10(g.r.Intn(70)))
		}
	}
	if g.r.Intn(2) == 0 {
		v.Neg(v)
	}
	switch g.r.Intn(9) {
	case 0, 1:
		return Ev{"op": "FromInt", "v": bigN(v)}
	case 2:
		den := new(big.Int).Rand(g.r, new(big.Int).Lsh(big.NewInt(1), uint(1+g.r.Intn(200))))
		if den.Sign() == 0 {
			den.SetInt64(1)
		}
		return Ev{"op": "FromRat", "num": bigN(v), "den": bigN(den)}
	case 3:
		f := new(big.Float).SetPrec(uint([]int{1, 24, 53, 113, 200}[g.r.Intn(5)])).SetInt(v)
		f.SetMantExp(f, g.r.Intn(801)-400)
		return Ev{"op": "FromFloat", "f": bigFloatRec(f)}
	case 4:
		return Ev{"op": "FromFloat64", "f": f64Rec(g.f64())}
	case 5:
		e := Ev{"op": "Float", "rprec": []int{-1, 0, 1, 53, 113, 200}[g.r.Intn(6)]}
		kind, _, c, _ := unmk(x)
		if kind != 0 || c == nil {
			c = randCoef(g.r)
		}
		e.setDec("x", mk(g.r.Intn(2) == 0, c, g.r.Intn(81)-40))
		return e
	case 6:
		e := Ev{"op": "Decompose", "bufcap": []int{-1, 0, 8, 15, 16, 17, 64}[g.r.Intn(7)]}
		e.setDec("x", x)
		return e
	case 7:
		b := make([]byte, g.r.Intn(24))
		const alpha = " \t\n+-.eE_0123456789infaNIxX"
		for i := range b {
			b[i] = alpha[g.r.Intn(len(alpha))]
		}
		e := Ev{"op": "ScanStream", "s": ints(b), "k": 1 + g.r.Intn(3)}
		e.setDec("prev", mk(false, big.NewInt(777), -3))
		return e
	default:
		ty := []string{"int64", "int32", "uint64", "uint32"}[g.r.Intn(4)]
		raw := g.r.Uint64()
		var n *big.Int
		switch ty {
		case "int64":
			n = big.NewInt(int64(raw))
		case "int32":
			n = big.NewInt(int64(int32(raw)))
		case "uint64":
			n = new(big.Int).SetUint64(raw)
		default:
			n = new(big.Int).SetUint64(uint64(uint32(raw)))
		}
		return Ev{"op": "FromInt64", "ty": ty, "v": bigN(n)}
	}
}

// every unary entry point on every stored exponent -41..41 (the implementation's power-of-ten tables end at 19, 34..39)
// and at the range ends, both signs, the coefficient class drawn
func (g *Gen) totalExpGrid(share float64) {
	ops := []string{"Canonical", "String", "MarshalJSON", "Frexp", "Exp", "Exp2", "Exp10", "Expm1", "Log", "Log2", "Log10", "Log1p", "Sqrt", "Cbrt",
		"PkgRound", "PkgTrunc", "PkgCeil", "PkgFloor", "Float64", "Float32", "Rat", "Int", "ToInt:int64", "ToInt:uint64", "ToInt:int32", "ToInt:uint32"}
	var exps []int
	for e := -41; e <= 41; e++ {
		exps = append(exps, e)
	}
	exps = append(exps, eMin, eMin+1, eMax-1, eMax)
	one := big.NewInt(1)
	coefs := []*big.Int{big.NewInt(1), big.NewInt(9999), pow10(18), new(big.Int).Lsh(one, 64), pow10(33), pow10(34), cMax}
	g.gridRun(len(ops)*len(exps)*2, share, func(i int) {
		neg := i%2 == 1
		i /= 2
		ex := exps[i%len(exps)]
		op := ops[i/len(exps)]
		c := coefs[g.r.Intn(len(coefs))]
		if (ex < -41 || ex > 41) && (op == "Rat" || op == "Int" || op == "Float64" || op == "Float32") && g.r.Intn(4) != 0 {
			return
		}
		var e Ev
		if strings.HasPrefix(op, "ToInt:") {
			e = Ev{"op": "ToInt", "ty": op[6:]}
		} else {
			e = Ev{"op": op}
		}
		e.setDec("x", mk(neg, c, ex))
		g.emitDet(e)
	})
}

// every unary entry point on every (coefficient class x stored exponent class), both signs: panics hide in the
// combination of a particular entry point with a particular exponent field (0, the 19-digit steps, the range ends)
func (g *Gen) totalGrid(share float64) {
	one := big.NewInt(1)
	coefs := []*big.Int{big.NewInt(0), big.NewInt(1), big.NewInt(9), pow10(18), new(big.Int).Lsh(one, 64), pow10(33), pow10(34), new(big.Int).Lsh(one, 113), cMax}
	exps := []int{0, 1, -1, 19, -19, 20, -20, 34, -34, 35, -35, eMin, eMax}
	ops := []string{"Neg", "Abs", "IsZero", "IsNaN", "Signbit", "Sign", "Canonical", "String", "MarshalBinary", "MarshalJSON", "Frexp",
		"Exp", "Exp2", "Exp10", "Expm1", "Log", "Log2", "Log10", "Log1p", "Sqrt", "Cbrt", "PkgRound", "PkgTrunc", "PkgCeil", "PkgFloor", "Float64", "Float32", "Rat", "Int",
		"ToInt:int64", "ToInt:int32", "ToInt:uint64", "ToInt:uint32", "Float", "Decompose", "Round", "Ceil", "Floor", "Ldexp", "Format", "Sprintf"}
	n := len(coefs) * len(exps) * len(ops)
	g.gridRun(n, share, func(i int) {
		c := coefs[i%len(coefs)]
		i /= len(coefs)
		ex := exps[i%len(exps)]
		op := ops[i/len(exps)]
		x := mk(g.r.Intn(2) == 0, c, ex)
		var e Ev
		switch {
		case strings.HasPrefix(op, "ToInt:"):
			e = Ev{"op": "ToInt", "ty": op[6:]}
		case op == "Float":
			if ex == eMin || ex == eMax { // 2^20000-sized quantities in the oracle: kept for the random part
				return
			}
			e = Ev{"op": "Float", "rprec": []int{-1, 53, 113}[g.r.Intn(3)]}
		case op == "Decompose":
			e = Ev{"op": "Decompose", "bufcap": []int{-1, 16}[g.r.Intn(2)]}
		case op == "Round" || op == "Ceil" || op == "Floor":
			e = Ev{"op": op, "wm": true, "m": g.r.Intn(6)}
			setInt(e, "dp", []int{0, 1, -1, 34, -34, 6176, -6111}[g.r.Intn(7)])
		case op == "Ldexp":
			e = Ev{"op": "Ldexp"}
			setInt(e, "exp", []int{0, 1, -1, 40, -40, 12287, -12287}[g.r.Intn(7)])
		case op == "Format":
			e = Ev{"op": "Format", "verb": int("eEfgG"[g.r.Intn(5)])}
			setInt(e, "prec", []int{-1, 0, 1, 34, 40}[g.r.Intn(5)])
		case op == "Sprintf":
			e = Ev{"op": "Sprintf", "spec": ints([]byte([]string{"v", ".3e", "+08.2f", "g", "-12.5G", "#.0f", "40.35e"}[g.r.Intn(7)]))}
		case (op == "Rat" || op == "Int" || op == "Float64" || op == "Float32") && (ex == eMin || ex == eMax) && g.r.Intn(4) != 0:
			return
		default:
			e = Ev{"op": op}
		}
		e.setDec("x", x)
		g.emitDet(e)
	})
}

// a pure call on shared operands for the concurrent phase (no SetMode, nothing that writes shared state)
func (g *Gen) sharedCall(pool []d128.Decimal, kinds []int) Ev {
	x, y := pool[g.r.Intn(len(pool))], pool[g.r.Intn(len(pool))]
	var e Ev
	switch kinds[g.r.Intn(len(kinds))] {
	case 0, 1, 2:
		e = Ev{"op": []string{"Add", "Sub", "Mul", "Quo", "QuoRem"}[g.r.Intn(5)], "wm": g.r.Intn(2) == 0, "m": g.r.Intn(6)}
		e.setDec("x", x)
		e.setDec("y", y)
	case 3:
		e = Ev{"op": "String"}
		e.setDec("x", x)
	case 4:
		e = Ev{"op": []string{"Cmp", "Equal", "Compare", "Min"}[g.r.Intn(4)]}
		e.setDec("x", x)
		e.setDec("y", y)
	case 5:
		e = Ev{"op": []string{"Sqrt", "Cbrt", "Canonical", "MarshalJSON", "MarshalBinary", "Frexp"}[g.r.Intn(6)]}
		e.setDec("x", x)
	case 6:
		e = Ev{"op": "Round", "wm": true, "m": g.r.Intn(6)}
		e.setDec("x", x)
		setInt(e, "dp", g.r.Intn(41)-20)
	case 7:
		e = Ev{"op": "Parse", "via": "Parse", "s": ints([]byte(g.validLiteral()))}
	case 8: // conversions: operands with moderate exponents (the oracle handles 2^20000-sized quantities, but slowly)
		e = Ev{"op": []string{"Int", "Rat", "Float64", "Float32"}[g.r.Intn(4)]}
		e.setDec("x", pool[3+4*g.r.Intn(len(pool)/4)])
	case 9:
		e = Ev{"op": "ToInt", "ty": []string{"int64", "int32", "uint64", "uint32"}[g.r.Intn(4)]}
		e.setDec("x", x)
	case 10:
		e = Ev{"op": "Float", "rprec": []int{-1, 0, 53, 128}[g.r.Intn(4)]}
		e.setDec("x", pool[3+4*g.r.Intn(len(pool)/4)])
	case 11:
		e = Ev{"op": []string{"Exp", "Log", "Log10", "Exp2"}[g.r.Intn(4)]}
		e.setDec("x", pool[3+4*g.r.Intn(len(pool)/4)])
	case 12:
		e = Ev{"op": "Sprintf", "spec": ints([]byte([]string{"v", ".3e", "+08.2f", "g", "-12.5G"}[g.r.Intn(5)]))}
		e.setDec("x", x)
	default:
		e = Ev{"op": "Decompose", "bufcap": []int{-1, 16}[g.r.Intn(2)]}
		e.setDec("x", x)
	}
	return e
}

// concurrent: the same calls run sequentially and then from G goroutines in shuffled order on shared operands;
// every concurrent execution is recorded with its goroutine id and whether its outputs equal the sequential ones
func (g *Gen) concurrent(G, ncalls int) {
	pool := make([]d128.Decimal, 12)
	for i := range pool {
		pool[i] = randFinite(g.r)
		if i%4 == 3 {
			pool[i] = mk(g.r.Intn(2) == 0, randCoef(g.r), g.r.Intn(61)-30)
		}
		if i == 10 {
			pool[i] = randSpecial(g.r)
		}
	}
	// each batch concentrates on two or three kinds of call (with different arguments), so that state shared inside
	// one entry point -- a cache, a scratch buffer -- is hit by different arguments at the same time
	// the first kind goes round robin over the batches of all shards, so that every kind is the theme of several batches
	g.batch++
	kinds := []int{(g.batch + 5*g.shard) % 14}
	if g.r.Intn(2) == 0 {
		kinds = append(kinds, g.r.Intn(14))
	}
	calls := make([]Ev, ncalls)
	seq := make([]map[string]any, ncalls)
	for i := range calls {
		calls[i] = g.sharedCall(pool, kinds)
		c := cloneEv(calls[i])
		exec(c)
		seq[i] = outputsOf(calls[i], c)
	}
	type rec struct {
		e Ev
	}
	out := make([][]Ev, G)
	var wg sync.WaitGroup
	for gi := 0; gi < G; gi++ {
		wg.Add(1)
		order := g.r.Perm(ncalls)
		go func(gi int, order []int) {
			defer wg.Done()
			for _, k := range order {
				c := cloneEv(calls[k])
				exec(c)
				c["gid"] = gi + 1
				c["k"] = k
				c["seqeq"] = sameOutputs(outputsOf(calls[k], c), withG(seq[k], c))
				out[gi] = append(out[gi], c)
			}
		}(gi, order)
	}
	wg.Wait()
	for gi := range out {
		for _, c := range out[gi] {
			if g.w.full() {
				return
			}
			g.w.put(c)
		}
	}
}

// the sequential outputs plus the bookkeeping fields of the concurrent record (so that only real outputs are compared)
func withG(seq map[string]any, c Ev) map[string]any {
	o := map[string]any{}
	for k, v := range seq {
		o[k] = v
	}
	for _, k := range []string{"gid", "k", "seqeq"} {
		if v, ok := c[k]; ok {
			o[k] = v
		}
	}
	return o
}

var _ = reflect.DeepEqual
var _ = big.NewInt

func genC20(g *Gen) {
	g.setMode(0)
	budget := g.w.max
	g.w.max = budget / 2
	g.totalGrid(0.34)
	g.totalExpGrid(0.5)
	// Compose with long coefficients that reduce by powers of ten (the reduction loops touch the caller's slice)
	lg := tailGrid(longJs)
	g.gridRun(len(lg), 0.05, func(i int) {
		if lg[i].rest != restZeros || lg[i].guard != 0 {
			return
		}
		c := g.longTailInt(lg[i])
		sig := append(make([]byte, g.r.Intn(3)), c.Bytes()...)
		e := Ev{"op": "Compose", "form": 0, "neg": g.r.Intn(2) == 0, "sig": ints(sig), "exp": g.r.Intn(41) - 20 - lg[i].j/2}
		e.setDec("prev", randAny(g.r))
		g.emitDet(e)
	})
	// every format string of up to three symbols over {+ - # space 0 5 . e v}: all the ways a specifier can stop early
	// (flags only, a width only, a trailing precision dot, a precision without a verb) and every short well-formed one
	g.gridRun(nShortSpecs, 0.12, func(i int) {
		sp := shortSpec(i)
		e := Ev{"op": "Sprintf", "spec": ints(sp)}
		e.setDec("x", []d128.Decimal{mk(true, big.NewInt(12375), -3), d128.NaN(), d128.Inf(-1), mk(false, big.NewInt(0), 7), randFinite(g.r)}[g.r.Intn(5)])
		g.emitDet(e)
	})
	for !g.w.full() {
		if g.r.Intn(40) == 0 {
			g.setMode(g.r.Intn(6))
		}
		g.emitDet(g.totalCall())
	}
	g.setMode(0)
	g.w.max = budget
	for !g.w.full() {
		g.concurrent([]int{8, 16, 64}[g.r.Intn(3)], 6+g.r.Intn(10))
	}
}
