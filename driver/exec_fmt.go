package main

import (
	"errors"
	"fmt"
	"io"
	"strings"
	"unicode/utf8"

	d128 "github.com/woodsbury/decimal128"
)

// a stream for fmt.Fscan: the whole text, or a prefix after which every read fails with an I/O error (not io.EOF)
type scanSource interface {
	io.Reader
	io.RuneScanner
	Len() int
}

var errBoom = errors.New("driver: injected read error")

type failingReader struct {
	data []byte
	pos  int
}

func (f *failingReader) ReadRune() (rune, int, error) {
	if f.pos >= len(f.data) {
		return 0, 0, errBoom
	}
	r, n := utf8.DecodeRune(f.data[f.pos:])
	f.pos += n
	return r, n, nil
}

func (f *failingReader) UnreadRune() error {
	if f.pos == 0 {
		return errors.New("driver: nothing to unread")
	}
	_, n := utf8.DecodeLastRune(f.data[:f.pos])
	f.pos -= n
	return nil
}

func (f *failingReader) Read(p []byte) (int, error) {
	if f.pos >= len(f.data) {
		return 0, errBoom
	}
	n := copy(p, f.data[f.pos:])
	f.pos += n
	return n, nil
}

func (f *failingReader) Len() int { return len(f.data) - f.pos }

func init() {
	// Format(d, verb, prec) / Append(buf, d, verb, prec)
	execTable["Format"] = func(e Ev) {
		x := e.dec("x")
		verb := byte(e.int("verb"))
		prec := realInt(e, "prec")
		s := d128.Format(x, verb, prec)
		e["s"] = ints([]byte(s))
		buf := []byte("pre")
		out := d128.Append(buf, x, verb, prec)
		e["ap"] = ints(out)
	}
	// fmt.Sprintf("%"+spec, d) and d.Append(buf, spec)
	execTable["Sprintf"] = func(e Ev) {
		x := e.dec("x")
		spec := string(e.bytes("spec"))
		e["s"] = ints([]byte(fmt.Sprintf("%"+spec, x)))
		func() {
			defer func() {
				if r := recover(); r != nil {
					e["appanic"] = fmt.Sprint(r)
				}
			}()
			e["ap"] = ints(x.Append(nil, spec))
			// the same call on buffers the caller already owns: a prefix that must stay in front, a buffer with spare room, a
			// buffer of non-zero capacity that is too small for the padded text
			e["ap2"] = ints(x.Append([]byte("pre"), spec))
			e["ap3"] = ints(x.Append(append(make([]byte, 0, 96), "pre"...), spec))
			e["ap4"] = ints(x.Append(make([]byte, 0, len(e["s"].([]int))/2+1), spec))
		}()
		if e.has("flt") {
			e["fs"] = ints([]byte(fmt.Sprintf("%"+spec, recToFloat64(e["flt"]))))
		}
	}
	execTable["Scan"] = func(e Ev) {
		var d d128.Decimal
		n, err := fmt.Sscanf(string(e.bytes("s")), "%"+string(rune(e.int("verb"))), &d)
		e["n"] = n
		e["err"] = errClass(err)
		if err != nil && e["err"] == "none" {
			e["err"] = "other"
		}
		setRes(e, "r", d)
	}
	// fmt.Fscan(stream, &d1, .., &dk) on a rune-scanning reader: how many were stored, the error class, every receiver
	// afterwards (all start as "prev"), and how many bytes of the stream are left unread
	execTable["ScanStream"] = func(e Ev) {
		var rd scanSource = strings.NewReader(string(e.bytes("s")))
		if e.has("failat") {
			rd = &failingReader{data: e.bytes("s")[:e.int("failat")]}
		}
		k := e.int("k")
		ds := make([]d128.Decimal, k)
		ptrs := make([]any, k)
		for i := range ds {
			ds[i] = e.dec("prev")
			ptrs[i] = &ds[i]
		}
		n, err := fmt.Fscan(rd, ptrs...)
		e["n"] = n
		switch {
		case err == nil:
			e["err"] = "none"
		case errors.Is(err, errBoom):
			e["err"] = "ioerr"
		case errors.Is(err, io.ErrUnexpectedEOF) || errors.Is(err, io.EOF):
			e["err"] = "eof"
		default:
			e["err"] = errClass(err)
		}
		rs := make([][]int, k)
		for i := range ds {
			rs[i] = ints(bitsOf(ds[i]))
		}
		e["rs"] = rs
		e["rem"] = rd.Len()
	}
	execTable["Misc"] = func(e Ev) {
		switch e.str("f") {
		case "E":
			e.setDec("r", d128.E())
		case "Pi":
			e.setDec("r", d128.Pi())
		case "Phi":
			e.setDec("r", d128.Phi())
		case "NaN":
			setRes(e, "r", d128.NaN())
		case "Inf":
			e.setDec("r", d128.Inf(e.int("sgn")))
		case "ModeString":
			e["s"] = ints([]byte(d128.RoundingMode(e.int("m")).String()))
		}
	}
}
