package main

import (
	"math"
	"math/big"

	d128 "github.com/woodsbury/decimal128"
)

// binary floats are written as {cls, neg, m (BigN limbs), e}: (-1)^neg * m * 2^e, decomposed here from the
// IEEE bits (independent of the library)
func f64Rec(f float64) map[string]any {
	b := math.Float64bits(f)
	neg := b>>63 == 1
	ex := int(b >> 52 & 0x7ff)
	fr := b & (1<<52 - 1)
	switch {
	case ex == 0x7ff && fr != 0:
		return map[string]any{"cls": "nan", "neg": neg, "m": []int{}, "e": 0}
	case ex == 0x7ff:
		return map[string]any{"cls": "inf", "neg": neg, "m": []int{}, "e": 0}
	case ex == 0 && fr == 0:
		return map[string]any{"cls": "zero", "neg": neg, "m": []int{}, "e": 0}
	case ex == 0:
		return binRec(neg, new(big.Int).SetUint64(fr), -1074)
	}
	return binRec(neg, new(big.Int).SetUint64(fr|1<<52), ex-1075)
}

func f32Rec(f float32) map[string]any {
	b := math.Float32bits(f)
	neg := b>>31 == 1
	ex := int(b >> 23 & 0xff)
	fr := uint64(b & (1<<23 - 1))
	switch {
	case ex == 0xff && fr != 0:
		return map[string]any{"cls": "nan", "neg": neg, "m": []int{}, "e": 0}
	case ex == 0xff:
		return map[string]any{"cls": "inf", "neg": neg, "m": []int{}, "e": 0}
	case ex == 0 && fr == 0:
		return map[string]any{"cls": "zero", "neg": neg, "m": []int{}, "e": 0}
	case ex == 0:
		return binRec(neg, new(big.Int).SetUint64(fr), -149)
	}
	return binRec(neg, new(big.Int).SetUint64(fr|1<<23), ex-150)
}

// strip trailing zero bits so that the mantissa stays short
func binRec(neg bool, m *big.Int, e int) map[string]any {
	m = new(big.Int).Set(m)
	if tz := m.TrailingZeroBits(); tz > 0 && m.Sign() != 0 {
		m.Rsh(m, tz)
		e += int(tz)
	}
	return map[string]any{"cls": "fin", "neg": neg, "m": bigN(m)["l"], "e": e}
}

func bigFloatRec(f *big.Float) map[string]any {
	if f.IsInf() {
		return map[string]any{"cls": "inf", "neg": f.Signbit(), "m": []int{}, "e": 0, "prec": int(f.Prec())}
	}
	if f.Sign() == 0 {
		return map[string]any{"cls": "zero", "neg": f.Signbit(), "m": []int{}, "e": 0, "prec": int(f.Prec())}
	}
	mant := new(big.Float)
	exp := f.MantExp(mant) // f = mant * 2^exp, 0.5 <= |mant| < 1
	prec := int(f.Prec())
	mant.SetMantExp(mant, prec)
	mi, acc := mant.Int(nil)
	if acc != big.Exact {
		panic("bigFloatRec: inexact")
	}
	r := binRec(f.Signbit(), mi.Abs(mi), exp-prec)
	r["prec"] = prec
	return r
}

func recToFloat64(v any) float64 {
	m := v.(map[string]any)
	neg, _ := m["neg"].(bool)
	var f float64
	switch m["cls"].(string) {
	case "nan":
		return math.NaN()
	case "inf":
		f = math.Inf(1)
	case "zero":
		f = 0
	default:
		mi := fromBigN(map[string]any{"neg": false, "l": m["m"]})
		e := 0
		switch t := m["e"].(type) {
		case int:
			e = t
		case float64:
			e = int(t)
		}
		f = math.Ldexp(float64(mi.Uint64()), e)
	}
	if neg {
		f = math.Copysign(f, -1)
	}
	return f
}

func recToBigFloat(v any) *big.Float {
	m := v.(map[string]any)
	neg, _ := m["neg"].(bool)
	prec := uint(0)
	switch t := m["prec"].(type) {
	case int:
		prec = uint(t)
	case float64:
		prec = uint(t)
	}
	f := new(big.Float).SetPrec(prec)
	switch m["cls"].(string) {
	case "inf":
		return f.SetInf(neg)
	case "zero":
		if neg {
			f.Neg(f)
		}
		return f
	}
	mi := fromBigN(map[string]any{"neg": false, "l": m["m"]})
	e := 0
	switch t := m["e"].(type) {
	case int:
		e = t
	case float64:
		e = int(t)
	}
	f.SetInt(mi)
	f.SetMantExp(f, e)
	if neg {
		f.Neg(f)
	}
	return f
}

func init() {
	execTable["FromInt64"] = func(e Ev) {
		v := fromBigN(e["v"])
		var r d128.Decimal
		switch e.str("ty") {
		case "int64":
			r = d128.FromInt64(v.Int64())
		case "int32":
			r = d128.FromInt32(int32(v.Int64()))
		case "uint64":
			r = d128.FromUint64(v.Uint64())
		case "uint32":
			r = d128.FromUint32(uint32(v.Uint64()))
		}
		e.setDec("r", r)
	}
	execTable["FromInt"] = func(e Ev) {
		v := fromBigN(e["v"])
		cp := new(big.Int).Set(v)
		e.setDec("r", d128.FromInt(v))
		e["inmod"] = cp.Cmp(v) != 0
	}
	execTable["Int"] = func(e Ev) {
		var recv *big.Int
		if e.has("recv") {
			recv = fromBigN(e["recv"])
		}
		z := e.dec("x").Int(recv)
		e["z"] = bigN(z)
		e["same"] = recv == nil || z == recv
	}
	execTable["ToInt"] = func(e Ev) {
		x := e.dec("x")
		switch e.str("ty") {
		case "int64":
			n, ok := x.Int64()
			e["n"], e["ok"] = bigNInt(n), ok
		case "int32":
			n, ok := x.Int32()
			e["n"], e["ok"] = bigNInt(int64(n)), ok
		case "uint64":
			n, ok := x.Uint64()
			e["n"], e["ok"] = bigN(new(big.Int).SetUint64(n)), ok
		case "uint32":
			n, ok := x.Uint32()
			e["n"], e["ok"] = bigNInt(int64(n)), ok
		}
	}
	execTable["Rat"] = func(e Ev) {
		var recv *big.Rat
		if e.has("recvn") {
			recv = new(big.Rat).SetFrac(fromBigN(e["recvn"]), fromBigN(e["recvd"]))
		}
		r := e.dec("x").Rat(recv)
		e["num"] = bigN(r.Num())
		e["den"] = bigN(r.Denom())
		e.setDec("fr", d128.FromRat(r))
	}
	execTable["FromRat"] = func(e Ev) {
		r := new(big.Rat).SetFrac(fromBigN(e["num"]), fromBigN(e["den"]))
		// the specification sees the fraction exactly as the library does (big.Rat normalises it)
		e["num"] = bigN(r.Num())
		e["den"] = bigN(r.Denom())
		cp := new(big.Rat).Set(r)
		e.setDec("r", d128.FromRat(r))
		e["inmod"] = cp.Cmp(r) != 0 || cp.Num().Cmp(r.Num()) != 0 || cp.Denom().Cmp(r.Denom()) != 0
	}
	execTable["FromFloat64"] = func(e Ev) {
		f := recToFloat64(e["f"])
		r := d128.FromFloat64(f)
		setRes(e, "r", r)
		e["bf"] = f64Rec(r.Float64())
	}
	execTable["FromFloat32"] = func(e Ev) {
		f := float32(recToFloat64(e["f"]))
		r := d128.FromFloat32(f)
		setRes(e, "r", r)
		e["bf"] = f32Rec(r.Float32())
	}
	execTable["Float64"] = func(e Ev) { e["f"] = f64Rec(e.dec("x").Float64()) }
	execTable["Float32"] = func(e Ev) { e["f"] = f32Rec(e.dec("x").Float32()) }
	execTable["Float"] = func(e Ev) {
		var recv *big.Float
		if p := e.int("rprec"); p >= 0 {
			recv = new(big.Float).SetPrec(uint(p)).SetMode(big.ToNearestEven)
			if p > 0 {
				recv.SetInt64(12345)
			}
		}
		f := e.dec("x").Float(recv)
		e["f"] = bigFloatRec(f)
	}
	execTable["FromFloat"] = func(e Ev) {
		f := recToBigFloat(e["f"])
		cp := new(big.Float).Copy(f)
		e.setDec("r", d128.FromFloat(f))
		e["inmod"] = cp.Cmp(f) != 0 || cp.Prec() != f.Prec() || cp.Mode() != f.Mode() || cp.Signbit() != f.Signbit()
	}
}
