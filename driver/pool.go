package main

import (
	"math/big"
	"math/rand"

	d128 "github.com/woodsbury/decimal128"
)

const (
	eMin = -6176
	eMax = 6111
	bias = 6176
)

var (
	cMax   = new(big.Int).Sub(new(big.Int).Mul(big.NewInt(5), new(big.Int).Lsh(big.NewInt(1), 111)), big.NewInt(1))
	two113 = new(big.Int).Lsh(big.NewInt(1), 113)
	ten    = big.NewInt(10)
)

func pow10(k int) *big.Int { return new(big.Int).Exp(ten, big.NewInt(int64(k)), nil) }

// mk encodes (sign, coefficient <= Cmax, exponent in range) as BID words, written
// here from the format definition and independent of the library's compose.
func mk(neg bool, c *big.Int, exp int) d128.Decimal {
	if c.Sign() < 0 || c.Cmp(cMax) > 0 || exp < eMin || exp > eMax {
		panic("mk: out of range")
	}
	be := uint64(exp + bias)
	var hi, lo uint64
	mask64 := new(big.Int).SetUint64(^uint64(0))
	lo = new(big.Int).And(c, mask64).Uint64()
	top := new(big.Int).Rsh(c, 64).Uint64() // up to 50 bits
	if c.Cmp(two113) < 0 {
		hi = be<<49 | top
	} else {
		hi = 3<<61 | be<<47 | (top & (1<<47 - 1))
	}
	if neg {
		hi |= 1 << 63
	}
	return d128.VerifFromBits(hi, lo)
}

func rawDec(hi, lo uint64) d128.Decimal { return d128.VerifFromBits(hi, lo) }

// decode a finite pattern (independent of the library) into sign, coefficient, exponent
func unmk(d d128.Decimal) (kind int, neg bool, c *big.Int, exp int) {
	hi, lo := d128.VerifBits(d)
	neg = hi>>63 == 1
	if hi&0x7c00_0000_0000_0000 == 0x7c00_0000_0000_0000 {
		return 2, neg, nil, 0
	}
	if hi&0x7c00_0000_0000_0000 == 0x7800_0000_0000_0000 {
		return 1, neg, nil, 0
	}
	c = new(big.Int)
	if hi&0x6000_0000_0000_0000 == 0x6000_0000_0000_0000 {
		exp = int(hi>>47&0x3fff) - bias
		c.SetUint64(hi&(1<<47-1) | 1<<49)
	} else {
		exp = int(hi>>49&0x3fff) - bias
		c.SetUint64(hi & (1<<49 - 1))
	}
	c.Lsh(c, 64)
	c.Or(c, new(big.Int).SetUint64(lo))
	return 0, neg, c, exp
}

var coefAtoms []*big.Int

func init() {
	add := func(v *big.Int) {
		if v.Sign() >= 0 && v.Cmp(cMax) <= 0 {
			coefAtoms = append(coefAtoms, v)
		}
	}
	for _, s := range []int64{0, 1, 2, 3, 4, 5, 6, 7, 8, 9, 11, 25, 99, 125, 128, 625, 1024} {
		add(big.NewInt(s))
	}
	one := big.NewInt(1)
	for k := 1; k <= 34; k++ {
		p := pow10(k)
		add(p)
		add(new(big.Int).Sub(p, one))
		add(new(big.Int).Add(p, one))
		f := new(big.Int).Mul(p, big.NewInt(5))
		add(f)
		add(new(big.Int).Sub(f, one))
		add(new(big.Int).Add(f, one))
		add(new(big.Int).Mul(p, big.NewInt(2)))
	}
	for _, sh := range []uint{31, 32, 53, 63, 64, 96, 110, 111, 112, 113} {
		p := new(big.Int).Lsh(one, sh)
		add(p)
		add(new(big.Int).Sub(p, one))
		add(new(big.Int).Add(p, one))
	}
	b18 := new(big.Int).Lsh(new(big.Int).SetUint64(0x18ff_ffff_ffff_ffff), 64)
	add(b18)
	add(new(big.Int).Add(b18, new(big.Int).SetUint64(^uint64(0))))
	b27 := new(big.Int).Lsh(new(big.Int).SetUint64(0x0002_7fff_ffff_ffff), 64)
	add(b27)
	add(new(big.Int).Sub(cMax, one))
	add(cMax)
	add(new(big.Int).Div(new(big.Int).Add(cMax, one), ten))
	add(new(big.Int).Sub(new(big.Int).Div(new(big.Int).Add(cMax, one), ten), one))
}

var expAtoms = []int{eMin, eMin + 1, eMin + 2, eMin + 17, eMin + 18, eMin + 19, eMin + 20, eMin + 33, eMin + 34, eMin + 35, eMin + 36,
	-40, -36, -35, -34, -33, -20, -19, -18, -8, -4, -3, -2, -1, 0, 1, 2, 3, 4, 8, 18, 19, 20, 33, 34, 35, 36, 40,
	eMax - 36, eMax - 35, eMax - 34, eMax - 33, eMax - 20, eMax - 19, eMax - 2, eMax - 1, eMax}

func randDigits(r *rand.Rand, n int) *big.Int {
	v := new(big.Int)
	for i := 0; i < n; i++ {
		d := int64(r.Intn(10))
		if i == 0 && d == 0 {
			d = 1 + int64(r.Intn(9))
		}
		v.Mul(v, ten)
		v.Add(v, big.NewInt(d))
	}
	return v
}

// randCoef draws a coefficient with a spread of shapes: atoms, uniform digit length,
// long runs of 0/9, trailing zeros.
func randCoef(r *rand.Rand) *big.Int {
	for {
		var v *big.Int
		switch r.Intn(11) {
		case 10:
			v = (&Gen{r: r}).boundaryCoef()
		case 0, 1:
			v = coefAtoms[r.Intn(len(coefAtoms))]
		case 2:
			v = new(big.Int).Rand(r, new(big.Int).Add(cMax, big.NewInt(1)))
		case 3: // digits then zeros
			n := 1 + r.Intn(35)
			k := 1 + r.Intn(n)
			v = new(big.Int).Mul(randDigits(r, k), pow10(n-k))
		case 4: // nines run
			n := 1 + r.Intn(35)
			k := r.Intn(n + 1)
			v = new(big.Int).Sub(pow10(n), big.NewInt(1))
			v.Sub(v, new(big.Int).Mul(big.NewInt(int64(r.Intn(9))), pow10(k%n)))
			if v.Sign() < 0 {
				v.Neg(v)
			}
		case 5: // top decade (35 digits)
			v = new(big.Int).Add(pow10(34), new(big.Int).Rand(r, new(big.Int).Sub(cMax, pow10(34))))
		default:
			v = randDigits(r, 1+r.Intn(35))
		}
		if v.Cmp(cMax) <= 0 {
			return new(big.Int).Set(v)
		}
	}
}

func randExp(r *rand.Rand) int {
	switch r.Intn(8) {
	case 0:
		return expAtoms[r.Intn(len(expAtoms))]
	case 1:
		return eMin + r.Intn(80)
	case 2:
		return eMax - r.Intn(80)
	case 3, 4:
		return -45 + r.Intn(91)
	default:
		return eMin + r.Intn(eMax-eMin+1)
	}
}

func clampExp(e int) int {
	if e < eMin {
		return eMin
	}
	if e > eMax {
		return eMax
	}
	return e
}

func randFinite(r *rand.Rand) d128.Decimal {
	return mk(r.Intn(2) == 0, randCoef(r), randExp(r))
}

// specials with garbage bits: NaN with sign / arbitrary payload, Inf with non-zero trailing bits
func randSpecial(r *rand.Rand) d128.Decimal {
	var hi uint64
	lo := uint64(0)
	switch r.Intn(6) {
	case 0:
		hi = 0x7800_0000_0000_0000
	case 1:
		hi = 0xf800_0000_0000_0000
	case 2:
		hi = 0x7800_0000_0000_0000 | r.Uint64()&0x83ff_ffff_ffff_ffff
		lo = r.Uint64()
	case 3:
		hi = 0x7c00_0000_0000_0000
	case 4:
		hi = 0x7c00_0000_0000_0000 | r.Uint64()&0x83ff_ffff_ffff_ffff
		lo = r.Uint64()
	default:
		hi = 0xfc00_0000_0000_0000
		lo = uint64(r.Intn(1 << 24))
	}
	return rawDec(hi, lo)
}

// randAny: mostly finite, sometimes zero with odd exponents, sometimes special, sometimes raw bits
func randAny(r *rand.Rand) d128.Decimal {
	switch r.Intn(20) {
	case 0:
		return randSpecial(r)
	case 1:
		return mk(r.Intn(2) == 0, new(big.Int), randExp(r))
	case 2:
		return rawDec(r.Uint64(), r.Uint64())
	default:
		return randFinite(r)
	}
}
