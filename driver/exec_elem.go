package main

import (
	d128 "github.com/woodsbury/decimal128"
)

func init() {
	un := func(name string, f func(d128.Decimal) d128.Decimal) {
		execTable[name] = func(e Ev) { setRes(e, "r", f(e.dec("x"))) }
	}
	un("Exp", d128.Exp)
	un("Exp2", d128.Exp2)
	un("Exp10", d128.Exp10)
	un("Expm1", d128.Expm1)
	un("Log", d128.Log)
	un("Log2", d128.Log2)
	un("Log10", d128.Log10)
	un("Log1p", d128.Log1p)
	un("Sqrt", d128.Sqrt)
	un("Cbrt", d128.Cbrt)
	execTable["Payload"] = func(e Ev) {
		p := e.dec("x").Payload()
		e["pls"] = p.String()
	}
}
