package main

import (
	"math/big"
	"runtime"
	"strings"

	d128 "github.com/woodsbury/decimal128"
)

// The rounding test matrix, enumerated rather than drawn: for a result that keeps 34 digits and drops j more, the
// outcome of every rounding mode is decided by (the parity of the last kept digit, the first dropped digit, whether
// anything non-zero follows it) -- and an implementation computes those three from digit chunks, so WHERE the non-zero
// dropped digit sits matters as much as whether there is one.  Each generator that produces inexact results walks the
// grid (dropped count j) x (guard digit) x (position of the only non-zero digit below the guard), striped over the
// shards, before it turns to random inputs.

type tailSpec struct{ j, guard, rest int }

const (
	restZeros  = iota // guard digit followed by zeros (exact, or an exact tie when the guard is 5)
	restFirst         // X 0 0 .. 0   a single non-zero digit directly below the guard
	restLast          // 0 .. 0 1     only the last dropped digit is non-zero
	restSecond        // 0 X 0 .. 0
	restPenult        // 0 .. 0 X 0
	restMiddle        // 0 .. X .. 0
	restNines         // 9 9 .. 9
	restChunk         // a single non-zero digit 18 or 19 places above the end (64-bit decimal chunk boundary)
	restGroup4        // g 0 0 0 | X 0 ..  the digits are cut off four at a time: the top group holds the guard and zeros, the next group starts with X >= 5
	restGroup8        // g 0 0 0 0 0 0 0 | X 0 ..  the same for a step of eight digits
	nRest
)

var gridGuards = []int{0, 4, 5, 9}

func tailGrid(js []int) []tailSpec {
	var out []tailSpec
	for _, j := range js {
		for _, gd := range gridGuards {
			for rest := 0; rest < nRest; rest++ {
				n := j - 1 // digits below the guard
				switch rest {
				case restFirst, restNines:
					if n < 1 {
						continue
					}
				case restLast:
					if n < 2 {
						continue
					}
				case restSecond, restPenult:
					if n < 3 {
						continue
					}
				case restMiddle:
					if n < 5 {
						continue
					}
				case restChunk:
					if n < 20 {
						continue
					}
				case restGroup4:
					if n < 4 {
						continue
					}
				case restGroup8:
					if n < 8 {
						continue
					}
				}
				out = append(out, tailSpec{j, gd, rest})
			}
		}
	}
	return out
}

// the j-digit tail value of a grid point
func (g *Gen) tailValue(t tailSpec) *big.Int {
	n := t.j - 1
	x := big.NewInt(int64(1 + g.r.Intn(9)))
	rest := new(big.Int)
	switch t.rest {
	case restFirst:
		rest.Mul(x, pow10(n-1))
	case restLast:
		rest.SetInt64(1)
	case restSecond:
		rest.Mul(x, pow10(n-2))
	case restPenult:
		rest.Mul(x, pow10(1))
	case restMiddle:
		rest.Mul(x, pow10(n/2))
	case restNines:
		rest.Sub(pow10(n), big.NewInt(1))
	case restChunk:
		rest.Mul(x, pow10(18+g.r.Intn(2)))
	case restGroup4:
		rest.Mul(big.NewInt(int64(5+g.r.Intn(5))), pow10(n-4))
	case restGroup8:
		rest.Mul(big.NewInt(int64(5+g.r.Intn(5))), pow10(n-8))
	}
	v := new(big.Int).Mul(big.NewInt(int64(t.guard)), pow10(n))
	return v.Add(v, rest)
}

// gridRun runs the cases of this shard's stripe (rotated by the seed) until the given share of the shard's budget is used.
func (g *Gen) gridRun(n int, share float64, f func(i int)) {
	name := "grid"
	if pc, _, _, ok := runtime.Caller(1); ok {
		name = runtime.FuncForPC(pc).Name()
		if k := strings.LastIndex(name, "."); k >= 0 {
			name = name[k+1:]
		}
	}
	covered := 0
	defer func() { gridStats[name] = [2]int{gridStats[name][0] + covered, n} }()
	limit := g.w.n + int(share*float64(g.w.max))
	if g.w.max == 0 {
		limit = 1 << 60
	}
	ns := g.nshards
	if ns < 1 {
		ns = 1
	}
	var idx []int
	for i := g.shard % ns; i < n; i += ns {
		idx = append(idx, i)
	}
	if len(idx) == 0 {
		return
	}
	off := g.r.Intn(len(idx))
	for k := range idx {
		if g.w.n >= limit || g.w.full() {
			return
		}
		f(idx[(off+k)%len(idx)])
		covered++
	}
}

// cells walked per enumerated grid (summed over the shards of one gen run), written next to the shards
var gridStats = map[string][2]int{}

var smallJs = []int{1, 2, 3, 4, 5, 6, 7, 8, 9, 10, 11, 12, 15, 18, 19, 20, 21, 27, 34}

// ---- Mul: a * b = K * 10^j + tail ---------------------------------------------

// mulWithTail: operands whose exact product has `total` digits and ends in the j-digit tail t; na digits in a
func (g *Gen) mulWithTail(j int, t *big.Int, total, na int) (x, y d128.Decimal, ok bool) {
	nb := total - na
	if nb < 1 || nb > 35 || na > 35 || na < 1 {
		return x, y, false
	}
	var a *big.Int
	for {
		a = randDigits(g.r, na)
		if a.Bit(0) == 0 {
			a.Add(a, big.NewInt(1))
		}
		if new(big.Int).Mod(a, big.NewInt(5)).Sign() != 0 {
			break
		}
	}
	mod := pow10(j)
	inv := new(big.Int).ModInverse(a, mod)
	if inv == nil {
		return x, y, false
	}
	low := new(big.Int).Mul(new(big.Int).Mod(t, mod), inv)
	low.Mod(low, mod)
	var b *big.Int
	if nb > j {
		b = new(big.Int).Add(new(big.Int).Mul(randDigits(g.r, nb-j), mod), low)
	} else {
		b = low
	}
	if b.Sign() == 0 || a.Cmp(cMax) > 0 || b.Cmp(cMax) > 0 {
		return x, y, false
	}
	e1, e2 := g.r.Intn(41)-20, g.r.Intn(41)-20
	if g.r.Intn(4) == 0 {
		e1, e2 = randExp(g.r), randExp(g.r)
	}
	x, y = mk(g.r.Intn(2) == 0, a, e1), mk(g.r.Intn(2) == 0, b, e2)
	if g.r.Intn(2) == 0 {
		x, y = y, x
	}
	return x, y, true
}

func (g *Gen) mulGrid(share float64) {
	grid := tailGrid(smallJs)
	g.gridRun(len(grid)*3, share, func(i int) {
		t := grid[i/3]
		size := i % 3
		for try := 0; try < 4; try++ {
			total := 35 + t.j
			if g.r.Intn(3) == 0 {
				total = 34 + t.j
			}
			var na int
			switch size {
			case 0: // one operand below 2^64
				na = 1 + g.r.Intn(19)
			case 1: // both of about the same length
				na = total / 2
			default:
				na = 20 + g.r.Intn(15)
			}
			if size == 0 && t.j <= 9 && g.r.Intn(3) == 0 {
				// a product below 2^64 whose j low digits fall below the smallest exponent
				if x, y, ok := g.mulSubnormal(t); ok {
					g.allModes("Mul", x, y)
					return
				}
			}
			if x, y, ok := g.mulWithTail(t.j, g.tailValue(t), total, na); ok {
				if g.r.Intn(4) == 0 {
					// the same product a few digits below the smallest exponent: the digits of the tail (and up to two
					// more) are shifted out by gradual underflow, after the reduction to 34 digits where there is one
					_, xn, xc, _ := unmk(x)
					_, yn, yc, _ := unmk(y)
					d := 1 + g.r.Intn(t.j+2)
					e1 := eMin + g.r.Intn(3000)
					x, y = mk(xn, xc, e1), mk(yn, yc, eMin-d-e1)
				}
				g.allModes("Mul", x, y)
				return
			}
		}
	})
}

// ---- Quo: every residue of the dividend modulo 2^a / 5^b (all the tails a terminating quotient can have) --------

func (g *Gen) quoGrid(share float64) {
	type qc struct {
		base int64
		pw   int
		res  int64
	}
	var cases []qc
	for a := 1; a <= 6; a++ {
		for r := int64(0); r < 1<<uint(a); r++ {
			cases = append(cases, qc{2, a, r})
		}
	}
	for b := 1; b <= 3; b++ {
		m := int64(1)
		for i := 0; i < b; i++ {
			m *= 5
		}
		for r := int64(0); r < m; r++ {
			cases = append(cases, qc{5, b, r})
		}
	}
	g.gridRun(len(cases), share, func(i int) {
		c := cases[i]
		d := new(big.Int).Exp(big.NewInt(c.base), big.NewInt(int64(c.pw)), nil)
		c1 := g.fullCoef()
		c1.Sub(c1, new(big.Int).Mod(c1, d))
		c1.Add(c1, big.NewInt(c.res))
		if c1.Cmp(cMax) > 0 {
			c1.Sub(c1, d)
		}
		if c1.Sign() <= 0 {
			return
		}
		c2 := new(big.Int).Set(d)
		if g.r.Intn(3) == 0 {
			c2.Mul(c2, pow10(g.r.Intn(10)))
		}
		e1, e2 := g.r.Intn(61)-30, g.r.Intn(61)-30
		g.allModes("Quo", mk(g.r.Intn(2) == 0, c1, e1), mk(g.r.Intn(2) == 0, c2, e2))
	})
}

// ---- Add / Sub: C * 10^e +- tail * 10^(e-j) -----------------------------------------

func (g *Gen) addGrid(share float64) {
	grid := tailGrid(append(append([]int{}, smallJs...), 35, 40))
	g.gridRun(len(grid)*2, share, func(i int) {
		t := grid[i/2]
		same := i%2 == 0
		var c *big.Int
		switch g.r.Intn(4) {
		case 0:
			c = pow10(33) // a borrow takes the sum below 10^33: one more digit is kept
		case 1:
			c = new(big.Int).Sub(pow10(34), big.NewInt(1)) // a carry takes it to 10^34
		default:
			c = g.fullCoef()
		}
		tv := g.tailValue(t)
		if tv.Sign() == 0 {
			return
		}
		// the addend has at most 34 digits: a longer tail keeps its leading digits
		ye := -t.j
		for tv.Cmp(cMax) > 0 {
			tv.Div(tv, ten)
			ye++
		}
		e := g.r.Intn(41) - 20
		if g.r.Intn(4) == 0 {
			e = randExp(g.r)
			if e+ye < eMin {
				e = eMin - ye
			}
		}
		neg := g.r.Intn(2) == 0
		x := mk(neg, c, e)
		y := mk(neg == same, tv, e+ye)
		op := "Add"
		if g.r.Intn(2) == 0 {
			op = "Sub"
			y = y.Neg()
		}
		if g.r.Intn(2) == 0 && op == "Add" {
			x, y = y, x
		}
		g.allModes(op, x, y)
	})
}

// ---- Parse: K followed by a tail, the point and the exponent anywhere ---------------------

func (g *Gen) literalOf(digits string) string {
	p := g.r.Intn(len(digits) + 1)
	s := digits[:p] + "." + digits[p:]
	switch g.r.Intn(4) {
	case 0:
		s = digits
	case 1:
		s = "0." + strings.Repeat("0", g.r.Intn(5)) + digits
	}
	if g.r.Intn(2) == 0 {
		s += "e" + big.NewInt(int64(g.r.Intn(200)-100)).String()
	}
	if g.r.Intn(3) == 0 {
		s = "-" + s
	}
	return s
}

func (g *Gen) parseGrid(share float64) {
	js := append(append([]int{}, smallJs...), 38, 39, 40, 57, 58, 76, 100)
	grid := tailGrid(js)
	// word-boundary literals: the digits of 2^64, 2^128, ... (and of the parser-threshold constants) +- a unit, then 0..6 more digits
	var words []string
	for _, w := range boundaryWords {
		s := w.String()
		if len(s) >= 19 {
			words = append(words, s)
		}
	}
	nw := len(words) * 7
	g.gridRun(len(grid)+nw, share, func(i int) {
		if i < len(grid) {
			t := grid[i]
			k := g.fullCoef()
			if g.r.Intn(3) == 0 {
				k = randDigits(g.r, 34)
			}
			tv := g.tailValue(t).String()
			tv = strings.Repeat("0", t.j-len(tv)) + tv
			s := g.literalOf(k.String() + tv)
			for m := 0; m < 6; m++ {
				g.setMode(m)
				g.parse("Parse", s)
			}
			g.setMode(0)
			return
		}
		i -= len(grid)
		w, extra := words[i/7], i%7
		v, _ := new(big.Int).SetString(w, 10)
		v.Add(v, big.NewInt(int64(g.r.Intn(3)-1)))
		d := v.String()
		if g.r.Intn(3) == 0 && len(d) > 20 { // a prefix of the word's digits
			d = d[:19+g.r.Intn(len(d)-19)]
		}
		if extra > 0 {
			d += g.digitsStr(extra)
		}
		if extra >= 5 && len(d) < 46 {
			// drawn digits up to 36..46 in all after a prefix of the word: the accumulator passes the word boundary in the
			// middle of a long literal, by one digit or by a pair of digits
			d = d[:min(len(d), 19+g.r.Intn(8))]
			d += g.digitsStr(36 + g.r.Intn(11) - len(d))
		}
		g.parseAllVias(g.literalOf(d), true)
	})
}

// ---- FromInt / Compose: long integers K * 10^j + tail --------------------------------------

func (g *Gen) longTailInt(t tailSpec) *big.Int {
	k := g.fullCoef()
	if g.r.Intn(3) == 0 {
		k = randDigits(g.r, 1+g.r.Intn(34))
	}
	v := new(big.Int).Mul(k, pow10(t.j))
	return v.Add(v, g.tailValue(t))
}

var longJs = []int{1, 2, 3, 4, 5, 9, 17, 18, 19, 20, 21, 36, 37, 38, 39, 40, 54, 57, 58, 76, 95, 100, 200}

// ---- the pair grid: special coefficients x special coefficients x exponent gaps -------------------------------
// Binary operations align their operands by the exponent gap and switch algorithm at particular gaps (one or two
// 64-bit words, 19-digit steps, the 34/35-digit limit), and the 35-digit band of coefficients [10^34, 5*2^111) is
// legal but outside what IEEE calls canonical.  Every pair (cx, cy, gap) of the lists below is enumerated.

var gridCoefs []*big.Int
var gridGapList = []int{0, 1, -1, 17, 18, 19, 20, -17, -18, -19, -20, 33, 34, 35, 36, -33, -34, -35, -36}

func init() {
	one := big.NewInt(1)
	p113 := new(big.Int).Lsh(one, 113)
	p64 := new(big.Int).Lsh(one, 64)
	gridCoefs = []*big.Int{
		big.NewInt(0), big.NewInt(1), big.NewInt(9), pow10(17), pow10(18), pow10(19), pow10(33),
		new(big.Int).Sub(pow10(34), one), pow10(34), new(big.Int).Add(pow10(34), one),
		new(big.Int).Sub(p113, one), p113, new(big.Int).Add(p113, one), new(big.Int).Set(cMax),
		new(big.Int).Sub(p64, one), p64,
	}
}

// the two members of a grid pair: coefficients cx, cy; x's exponent is gap above y's
func (g *Gen) gridPair(cx, cy *big.Int, gap int) (x, y d128.Decimal) {
	ex := g.r.Intn(41) - 20
	switch g.r.Intn(6) {
	case 0:
		ex = eMin + g.r.Intn(45)
	case 1:
		ex = eMax - g.r.Intn(45)
	}
	ey := ex - gap
	if ey < eMin {
		ex, ey = ex+(eMin-ey), eMin
	}
	if ey > eMax {
		ex, ey = ex-(ey-eMax), eMax
	}
	return mk(g.r.Intn(2) == 0, cx, ex), mk(g.r.Intn(2) == 0, cy, ey)
}

func (g *Gen) pairGrid(share float64, f func(x, y d128.Decimal)) {
	nc, ng := len(gridCoefs), len(gridGapList)
	g.gridRun(nc*nc*ng, share, func(i int) {
		cx, cy, gap := gridCoefs[i%nc], gridCoefs[(i/nc)%nc], gridGapList[i/(nc*nc)]
		x, y := g.gridPair(cx, cy, gap)
		f(x, y)
	})
}

// every special coefficient at eight consecutive exponents (all residues of the biased exponent modulo 8) in three
// places of the range, both signs: predicates and comparisons with zero
func (g *Gen) encodingGrid(share float64, f func(x d128.Decimal)) {
	bases := []int{eMin, -4, eMax - 7}
	n := len(gridCoefs) * len(bases) * 8
	g.gridRun(n, share, func(i int) {
		c := gridCoefs[i%len(gridCoefs)]
		j := i / len(gridCoefs)
		e := bases[j/8] + j%8
		f(mk(g.r.Intn(2) == 0, c, e))
	})
}

// ---- literals at the ends of the range: (number of written digits) x (magnitude) x (leading pattern) x (written form) ----
func (g *Gen) edgeLiteralGrid(share float64) {
	lens := []int{1, 2, 17, 19, 20, 33, 34, 35, 36, 37, 38, 39, 40, 41, 50, 77}
	adjs := []int{-6179, -6178, -6177, -6176, -6175, -6174, -6144, -6143, -6142, 6143, 6144, 6145}
	const nPat, nForm = 5, 3
	g.gridRun(len(lens)*len(adjs)*nPat*nForm, share, func(i int) {
		n := lens[i%len(lens)]
		i /= len(lens)
		adj := adjs[i%len(adjs)]
		i /= len(adjs)
		pat, form := i%nPat, i/nPat
		var ds string
		switch pat {
		case 0:
			ds = "1" + g.digitsStr(n-1)
		case 1:
			ds = "4" + strings.Repeat("9", n-1)
		case 2:
			ds = "5" + strings.Repeat("0", n-1)
		case 3:
			ds = "5" + strings.Repeat("0", n-1)
			if n > 1 {
				ds = ds[:n-1] + "1"
			}
		default:
			ds = strings.Repeat("9", n)
		}
		// value = d.ddd * 10^adj = ds * 10^(adj - n + 1)
		var s string
		switch form {
		case 0:
			s = ds + "e" + big.NewInt(int64(adj-n+1)).String()
		case 1:
			s = ds[:1] + "." + ds[1:] + "e" + big.NewInt(int64(adj)).String()
			if n == 1 {
				s = ds + "e" + big.NewInt(int64(adj)).String()
			}
		default:
			if adj < 0 {
				s = "0." + strings.Repeat("0", -adj-1) + ds
			} else {
				s = ds + strings.Repeat("0", adj-n+1)
				if adj-n+1 < 0 {
					s = ds + "e" + big.NewInt(int64(adj-n+1)).String()
				}
			}
		}
		if g.r.Intn(2) == 0 {
			s = "-" + s
		}
		g.setMode(g.r.Intn(6))
		g.parse("Parse", s)
		if g.r.Intn(4) == 0 {
			g.parse("UnmarshalText", s)
		}
		g.setMode(0)
	})
}

// ---- binary floating point: decimals at the edges of float64 / float32 in EVERY cohort member ------------------
var floatEdges = []string{
	// float64: largest finite, the overflow halfway point 2^1024 (1 - 2^-54) = 1.797693134862315807937e308, powers of ten
	"1e308", "9e307", "2e308", "1e309", "17976931348623157e292", "17976931348623158e292", "179769313486231580793e288", "179769313486231580794e288",
	// smallest normal and subnormals (2^-1074 = 4.94e-324; half of it 2.47e-324 ties to zero)
	"22250738585072014e-324", "22250738585072011e-324", "5e-324", "49e-325", "25e-325", "24703282292062327e-340", "24703282292062328e-340", "1e-323", "1e-324", "3e-324",
	// float32: largest finite 3.4028235e38, overflow halfway 3.4028235677973366e38, smallest subnormal 1.4e-45 (half: 7.006e-46)
	"1e38", "1e39", "34028234e31", "34028235e31", "34028236e31", "3402823567797336616e20", "3402823567797336617e20",
	"11754944e-45", "11754943e-45", "1e-45", "14e-46", "7e-46", "8e-46", "70064923216240853e-62", "70064923216240854e-62",
}

func (g *Gen) floatEdgeGrid(share float64, f func(x d128.Decimal)) {
	type fe struct {
		c *big.Int
		e int
	}
	var cases []fe
	for _, s := range floatEdges {
		d, err := d128.Parse(s)
		if err != nil {
			continue
		}
		_, _, c, e := unmk(d)
		for k := 0; ; k++ {
			ck := new(big.Int).Mul(c, pow10(k))
			if ck.Cmp(cMax) > 0 || e-k < eMin {
				break
			}
			cases = append(cases, fe{ck, e - k})
		}
	}
	g.gridRun(len(cases), share, func(i int) {
		f(mk(g.r.Intn(2) == 0, cases[i].c, cases[i].e))
	})
}

// ---- comparisons: K * 10^j against K * 10^j + (one non-zero digit somewhere in the j low digits) ------------------
// Comparison code aligns the operands by dividing the longer coefficient in stages (10^19, 10^8, ...) and must remember
// that something non-zero was discarded at ANY stage.
func (g *Gen) cmpTailGrid(share float64, f func(x, y d128.Decimal)) {
	var js []int
	for j := 1; j <= 34; j++ {
		js = append(js, j)
	}
	grid := tailGrid(js)
	g.gridRun(len(grid), share, func(i int) {
		t := grid[i]
		if t.guard != 0 && t.guard != 9 {
			return
		}
		nk := 35 - t.j
		if nk > 1 && g.r.Intn(3) == 0 {
			nk = 1 + g.r.Intn(nk)
		}
		k := randDigits(g.r, nk)
		if g.r.Intn(4) == 0 {
			k = pow10(nk - 1)
		}
		long := new(big.Int).Mul(k, pow10(t.j))
		long.Add(long, g.tailValue(t))
		if long.Cmp(cMax) > 0 {
			return
		}
		e := g.r.Intn(41) - 20
		if g.r.Intn(5) == 0 {
			e = eMin + g.r.Intn(eMax-eMin-40)
		}
		neg := g.r.Intn(2) == 0
		x := mk(neg, k, e+t.j)
		y := mk(neg, long, e)
		if g.r.Intn(6) == 0 {
			y = y.Neg()
		}
		f(x, y)
	})
}

// mulSubnormal: small operands (product below 2^64) whose exact product ends in the tail and lies j digits below the
// smallest exponent, so that exactly the tail is rounded away
func (g *Gen) mulSubnormal(t tailSpec) (x, y d128.Decimal, ok bool) {
	total := t.j + g.r.Intn(19-t.j)
	if total < t.j {
		total = t.j
	}
	na := 1 + g.r.Intn(9)
	if na >= total {
		na = total - 1
	}
	if na < 1 {
		na = 1
	}
	x, y, ok = g.mulWithTail(t.j, g.tailValue(t), total+1, na)
	if !ok {
		return
	}
	_, xn, xc, _ := unmk(x)
	_, yn, yc, _ := unmk(y)
	if new(big.Int).Mul(xc, yc).BitLen() > 63 {
		return x, y, false
	}
	e1 := eMin + g.r.Intn(3000)
	e2 := eMin - t.j - e1
	if e2 < eMin || e2 > eMax {
		return x, y, false
	}
	return mk(xn, xc, e1), mk(yn, yc, e2), true
}

// ---- Mul, two reductions in a row: a wide product (one operand at least 2^64, so the 256-bit path) that lies below the
// smallest exponent.  First the product is cut to 34 digits (n1 digits go), then j more are shifted out by gradual
// underflow; the sticky information of the first cut must survive the second.  Cells: n1 x j x guard x (where the only
// non-zero digit below the guard sits, counted over all n1+j dropped digits); exact ties are issued with an even and an
// odd kept coefficient.
var wideSubN1 = []int{0, 1, 2, 6}
var wideSubJ = []int{1, 2, 3, 5, 9, 19, 20}

func (g *Gen) mulWideSubnormalGrid(share float64) {
	type cell struct {
		n1 int
		t  tailSpec
	}
	var cells []cell
	for _, n1 := range wideSubN1 {
		for _, j := range wideSubJ {
			for _, t := range tailGrid([]int{n1 + j}) {
				cells = append(cells, cell{n1, t})
			}
		}
	}
	g.gridRun(len(cells), share, func(i int) {
		c := cells[i]
		J := c.t.j // all dropped digits
		j := J - c.n1
		tie := c.t.guard == 5 && c.t.rest == restZeros
		wantPar := []int{-1}
		if tie {
			wantPar = []int{0, 1}
		}
		for _, par := range wantPar {
			for try := 0; try < 40; try++ {
				var total, na int
				if c.n1 > 0 {
					total = 34 + J
					lo := 20
					if J-1 > lo {
						lo = J - 1
					}
					na = lo + g.r.Intn(34-lo)
				} else if g.r.Intn(2) == 0 {
					na = 20 + g.r.Intn(10)
					total = na + 1 + g.r.Intn(j) // the other operand is only the solved low part
				} else {
					kept := 21 + g.r.Intn(14)
					total = kept + J
					na = 20 + g.r.Intn(kept-20)
				}
				x, y, ok := g.mulWithTail(J, g.tailValue(c.t), total, na)
				if !ok {
					continue
				}
				_, xn, xc, _ := unmk(x)
				_, yn, yc, _ := unmk(y)
				if xc.BitLen() <= 64 && yc.BitLen() <= 64 {
					continue
				}
				prod := new(big.Int).Mul(xc, yc)
				nd := len(prod.String())
				if c.n1 > 0 && nd != 34+J {
					continue
				}
				if c.n1 == 0 && (nd-J > 34 || nd <= J) {
					continue
				}
				if par >= 0 && int(new(big.Int).Div(prod, pow10(J)).Bit(0)) != par {
					continue
				}
				e1 := eMin + g.r.Intn(3000)
				e2 := eMin - j - e1
				g.allModes("Mul", mk(xn, xc, e1), mk(yn, yc, e2))
				break
			}
		}
	})
}

// ---- every encoding of one (10^k * 10^-k, k = 0..34, both signs) through Pow's shortcut ladder ---------------------
func (g *Gen) onesGrid(share float64) {
	ys := []d128.Decimal{d128.Inf(1), d128.Inf(-1), d128.NaN(), mk(false, new(big.Int), 0), mk(false, big.NewInt(2), 0), mk(false, big.NewInt(5), -1),
		mk(true, big.NewInt(1), 0), mk(false, big.NewInt(3), 0), mk(false, big.NewInt(1), 40)}
	xs := []d128.Decimal{mk(false, big.NewInt(3), 0), mk(true, big.NewInt(2), 0), d128.Inf(1), d128.Inf(-1), d128.NaN(), mk(false, new(big.Int), 0), mk(true, new(big.Int), -5),
		mk(false, big.NewInt(7), -1)}
	g.gridRun(35*2, share, func(i int) {
		k := i / 2
		one := mk(i%2 == 1, pow10(k), -k)
		for _, y := range ys {
			g.pow(one, y, g.r.Intn(6), true)
		}
		for _, x := range xs {
			g.pow(x, one, g.r.Intn(6), true)
		}
	})
}

// ---- an operand that vanishes during alignment: (digits of the large operand) x (digits of the small one) x (gap) ----
// Add / Sub scale the larger operand up as far as the word size allows and then divide the smaller one down in steps
// (10^8, 10^4, 10^3, 10, ...): in which step it disappears depends on its ENCODING, not on its value.
func (g *Gen) vanishGrid(share float64, f func(x, y d128.Decimal)) {
	nxs := []int{1, 2, 10, 19, 20, 34, 35}
	nys := []int{1, 2, 3, 4, 5, 8, 9, 16, 19, 20}
	const gapLo, gapHi = 30, 80
	n := len(nxs) * len(nys) * (gapHi - gapLo + 1)
	g.gridRun(n, share, func(i int) {
		nx := nxs[i%len(nxs)]
		i /= len(nxs)
		ny := nys[i%len(nys)]
		gap := gapLo + i/len(nys)
		cx := randDigits(g.r, nx)
		if nx == 35 {
			cx = new(big.Int).Add(pow10(34), new(big.Int).Rand(g.r, new(big.Int).Sub(cMax, pow10(34))))
		}
		if g.r.Intn(3) == 0 {
			cx = pow10(nx - 1)
		}
		cy := randDigits(g.r, ny)
		ex := g.r.Intn(41) - 20
		// gap between the LEADING digits: x = cx * 10^ex, y = cy * 10^ey with ey + ny = ex + nx - gap
		ey := ex + nx - gap - ny
		if ey < eMin {
			return
		}
		f(mk(g.r.Intn(2) == 0, cx, ex), mk(g.r.Intn(2) == 0, cy, ey))
	})
}
