package main

import (
	"math/big"

	d128 "github.com/woodsbury/decimal128"
)

// ---- C17: Sqrt / Cbrt --------------------------------------------------------

func (g *Gen) rootArg(k int) d128.Decimal {
	neg := k == 3 && g.r.Intn(2) == 0
	switch g.r.Intn(9) {
	case 7: // coefficients at the word boundaries of the implementation's wide integer arithmetic
		return mk(neg, g.wrapCoef(), randExp(g.r))
	case 8:
		return mk(neg, g.boundaryCoef(), randExp(g.r))
	case 0: // perfect power and its neighbours
		nd := 1 + g.r.Intn(35/k)
		s := randDigits(g.r, nd)
		p := new(big.Int).Exp(s, big.NewInt(int64(k)), nil)
		p.Add(p, big.NewInt(int64(g.r.Intn(3)-1)))
		if p.Sign() <= 0 || p.Cmp(cMax) > 0 {
			p = new(big.Int).Exp(s, big.NewInt(int64(k)), nil)
		}
		if p.Cmp(cMax) > 0 {
			p = big.NewInt(4)
		}
		return mk(neg, p, k*(g.r.Intn(4000/k)-2000/k)+g.r.Intn(2)*0)
	case 1: // square of a midpoint between adjacent 34-digit values, rounded into the format: root very close to a tie
		s := randDigits(g.r, 34)
		m := new(big.Int).Add(new(big.Int).Mul(s, big.NewInt(10)), big.NewInt(5)) // s + 1/2 in units of 1/10
		p := new(big.Int).Exp(m, big.NewInt(int64(k)), nil)
		// keep the leading 34 digits (truncate or bump)
		str := p.String()
		drop := len(str) - 34
		c, _ := new(big.Int).SetString(str[:34], 10)
		if g.r.Intn(2) == 0 {
			c.Add(c, big.NewInt(1))
		}
		e := drop - k // (m/10)^k
		e += k * (g.r.Intn(200) - 100)
		return mk(neg, c, clampExp(e))
	case 2: // leading-digit sweep
		lead := 100 + g.r.Intn(900)
		c := new(big.Int).Mul(big.NewInt(int64(lead)), pow10(g.r.Intn(32)))
		c.Add(c, big.NewInt(int64(g.r.Intn(1000))))
		return mk(neg, c, randExp(g.r))
	case 3: // subnormal and extreme exponents, every residue class of the exponent
		return mk(neg, randCoef(g.r), []int{eMin, eMin + 1, eMin + 2, eMin + 3, eMin + 4, eMin + 5, eMax, eMax - 1, eMax - 2, eMax - 3, eMax - 4, eMax - 5}[g.r.Intn(12)])
	case 4:
		return mk(neg, big.NewInt(int64(1+g.r.Intn(1000))), g.r.Intn(13)-6)
	default:
		d := randFinite(g.r)
		if k == 2 && d.Signbit() {
			d = d.Neg()
		}
		return d
	}
}

func genC17(g *Gen) {
	g.setMode(0)
	g.encodingGrid(0.25, func(x d128.Decimal) {
		g.un("Sqrt", x)
		g.un("Cbrt", x)
	})
	// solved arguments whose root lies 1e-20 .. 1e-15 ulp below a rounding midpoint (see rootNearMidpoint)
	g.gridRun(2*300, 0.25, func(i int) {
		if x, ok := g.rootNearMidpoint(2 + i%2); ok {
			gridHits["rootNearMidpoint"]++
			g.un([]string{"Sqrt", "Cbrt"}[i%2], x)
		}
	})
	for !g.w.full() {
		switch g.r.Intn(12) {
		case 0:
			x := randAny(g.r)
			g.un("Sqrt", x)
			g.un("Cbrt", x)
		default:
			if g.r.Intn(2) == 0 {
				g.un("Sqrt", g.rootArg(2))
			} else {
				g.un("Cbrt", g.rootArg(3))
			}
		}
	}
}

// ---- C15: special operands ----------------------------------------------------

// class representatives: NaN (plain / signed / foreign payload), +-Inf (canonical / garbage), +-0 with
// several exponents, +-1 in three cohort members, finite classes
func (g *Gen) classRep() d128.Decimal {
	neg := g.r.Intn(2) == 0
	one := big.NewInt(1)
	switch g.r.Intn(20) {
	case 0:
		return rawDec(0x7c00_0000_0000_0000, 0)
	case 1:
		return rawDec(0xfc00_0000_0000_0000, uint64(g.r.Intn(1<<24)))
	case 2:
		return randSpecialNaN(g)
	case 3:
		return d128.Inf(g.r.Intn(2)*2 - 1)
	case 4:
		return g.variant(d128.Inf(g.r.Intn(2)*2 - 1))
	case 5, 6:
		return mk(neg, new(big.Int), []int{eMin, 0, eMax, -1, 1, 35, -35}[g.r.Intn(7)])
	case 7:
		k := g.r.Intn(35)
		return mk(neg, pow10(k), -k)
	case 8: // even / odd integers, also written with a positive exponent or fraction zeros
		v := big.NewInt(int64(g.r.Intn(1000)))
		k := g.r.Intn(20)
		return g.cohort(mk(neg, new(big.Int).Mul(v, pow10(k)), -k))
	case 9:
		return mk(neg, big.NewInt(int64(1+g.r.Intn(99))), 1+g.r.Intn(40))
	case 10: // half-integers
		return mk(neg, big.NewInt(int64(g.r.Intn(100)*10+5)), -1)
	case 11: // non-integers
		return mk(neg, randDigits(g.r, 1+g.r.Intn(20)), -1-g.r.Intn(25))
	case 12: // |x| < 1
		return mk(neg, randDigits(g.r, 1+g.r.Intn(34)), -36-g.r.Intn(100))
	case 13: // powers of ten, even and odd exponents
		return g.cohort(mk(neg, one, g.r.Intn(200)-100))
	case 14: // > 2^64
		return mk(neg, new(big.Int).Lsh(one, uint(64+g.r.Intn(40))), g.r.Intn(10))
	case 15:
		return mk(neg, cMax, eMax)
	case 16:
		return mk(neg, one, eMin)
	case 17:
		return mk(neg, big.NewInt(int64([]int{1, 2, 3, 5, 10}[g.r.Intn(5)])), 0)
	default:
		return randFinite(g.r)
	}
}

func genC15(g *Gen) {
	g.setMode(0)
	unary := []string{"Exp", "Exp2", "Exp10", "Expm1", "Log", "Log2", "Log10", "Log1p", "Sqrt", "Cbrt"}
	g.powSignGrid(0.05)
	g.powPaddedIntGrid(0.05)
	// classification of finite operands in every encoding: each special coefficient (0, 2^113 in the second coefficient
	// layout, the single-bit ones ...) at every residue of the stored exponent through the predicates and through one call
	// of each family whose prologue asks "is it zero / special": a non-zero value taken for zero gives a special-case result
	classify := func(x d128.Decimal, i int) {
		for _, op := range []string{"IsNaN", "IsZero", "Sign"} {
			g.un(op, x)
		}
		e := Ev{"op": "IsInf", "sgn": 0}
		e.setDec("x", x)
		g.emit(e)
		inf, three := g.variant(d128.Inf(1-2*(i%2))), mk(false, big.NewInt(3), 0)
		switch i % 5 {
		case 0:
			g.bin("Mul", x, inf, g.r.Intn(6)) // 0 * Inf is the only NaN
			g.bin("Quo", three, x, g.r.Intn(6))
		case 1:
			g.bin("Quo", x, x, g.r.Intn(6)) // 0/0 is the only NaN
			g.bin("QuoRem", three, x, g.r.Intn(6))
		case 2:
			g.bin("Pow", x, inf, g.r.Intn(6))
			g.bin("Pow", inf, x, g.r.Intn(6))
		case 3:
			g.un([]string{"Log", "Log2", "Log10", "Sqrt", "Cbrt"}[(i/5)%5], x)
		default:
			g.bin("Quo", inf, x, g.r.Intn(6))
			g.bin("Add", x, x.Neg(), g.r.Intn(6))
		}
	}
	ci := 0
	g.encodingGrid(0.12, func(x d128.Decimal) { classify(x, ci); ci++ })
	g.bitGrid(0.06, func(x d128.Decimal) { classify(x, ci); ci++ })
	for !g.w.full() {
		x, y := g.classRep(), g.classRep()
		m := g.r.Intn(6)
		switch g.r.Intn(10) {
		case 0, 1:
			g.bin([]string{"Add", "Sub", "Mul", "Quo", "QuoRem"}[g.r.Intn(5)], x, y, m)
		case 2, 3, 4:
			if !g.powSpecial(x, y) {
				// force one side into a class with a table entry
				sp := []d128.Decimal{randSpecialNaN(g), g.variant(d128.Inf(1)), g.variant(d128.Inf(-1)), mk(g.r.Intn(2) == 0, new(big.Int), randExp(g.r)),
					g.cohort(mk(false, big.NewInt(1), 0)), g.cohort(mk(true, big.NewInt(1), 0))}[g.r.Intn(6)]
				if g.r.Intn(2) == 0 {
					x = sp
				} else {
					y = sp
				}
			}
			if g.powSpecial(x, y) {
				g.bin("Pow", x, y, m)
				if g.r.Intn(4) == 0 {
					g.binDefault("Pow", x, y)
				}
			}
		case 5:
			g.bin2([]string{"Min", "Max"}[g.r.Intn(2)], x, y)
			g.quant([]string{"Round", "Ceil", "Floor"}[g.r.Intn(3)], x, g.r.Intn(21)-10, m)
		case 6:
			if g.r.Intn(4) == 0 {
				g.emit(Ev{"op": "Misc", "f": []string{"E", "Pi", "Phi", "NaN"}[g.r.Intn(4)]})
				g.emit(Ev{"op": "Misc", "f": "Inf", "sgn": g.r.Intn(3) - 1})
				g.emit(Ev{"op": "Misc", "f": "ModeString", "m": []int{0, 1, 2, 3, 4, 5, 6, 17, 255}[g.r.Intn(9)]})
			}
			for _, op := range []string{"IsNaN", "IsZero", "Signbit"} {
				g.un(op, x)
			}
			e := Ev{"op": "IsInf", "sgn": g.r.Intn(3) - 1}
			e.setDec("x", x)
			g.emit(e)
			g.un("Sign", x)
			le := Ev{"op": "Ldexp"}
			le.setDec("x", x)
			setInt(le, "exp", g.r.Intn(41)-20)
			g.emit(le)
			g.un("Frexp", x)
		default:
			// only arguments with a definite special-case answer are used here (C16 covers the numeric results)
			op := unary[g.r.Intn(len(unary))]
			if !isSpecialFor(op, x) {
				x = []d128.Decimal{g.variant(d128.Inf(1)), g.variant(d128.Inf(-1)), randSpecialNaN(g), mk(g.r.Intn(2) == 0, new(big.Int), randExp(g.r)),
					mk(true, randCoef(g.r), randExp(g.r)), g.cohort(mk(g.r.Intn(2) == 0, big.NewInt(1), 0))}[g.r.Intn(6)]
			}
			if isSpecialFor(op, x) {
				g.un(op, x)
			}
		}
	}
}

// does op(x) have a definite special-case result (so that no numeric oracle is needed)?
func isSpecialFor(op string, x d128.Decimal) bool {
	kind, neg, c, e := unmk(x)
	if kind != 0 {
		return true
	}
	zero := c.Sign() == 0
	isOne := false
	if !zero {
		v := new(big.Int).Set(c)
		ee := e
		for ee < 0 && new(big.Int).Mod(v, ten).Sign() == 0 {
			v.Div(v, ten)
			ee++
		}
		isOne = ee == 0 && v.Cmp(big.NewInt(1)) == 0
	}
	switch op {
	case "Exp", "Exp2", "Exp10", "Expm1":
		return zero
	case "Log", "Log2", "Log10":
		return zero || neg || isOne
	case "Log1p":
		if zero {
			return true
		}
		if !neg {
			return false
		}
		// x <= -1 ?
		mag := new(big.Rat).SetInt(c)
		if e >= 0 {
			return true
		}
		if -e > 60 {
			return false
		}
		mag.Quo(mag, new(big.Rat).SetInt(pow10(-e)))
		return mag.Cmp(big.NewRat(1, 1)) >= 0
	case "Sqrt":
		return zero || neg
	case "Cbrt":
		return zero
	}
	return false
}

func decParts(x d128.Decimal) (kind int, neg bool, c *big.Int, e int) {
	kind, neg, c, e = unmk(x)
	if kind == 0 && c.Sign() != 0 {
		c = new(big.Int).Set(c)
		for new(big.Int).Mod(c, ten).Sign() == 0 {
			c.Div(c, ten)
			e++
		}
	}
	return
}

// is Pow(x, y) decided by the special-case table / shortcut ladder?
func (g *Gen) powSpecial(x, y d128.Decimal) bool {
	xk, xneg, xc, xe := decParts(x)
	yk, yneg, yc, ye := decParts(y)
	if xk != 0 || yk != 0 {
		return true
	}
	one := big.NewInt(1)
	if xc.Sign() == 0 || yc.Sign() == 0 {
		return true
	}
	if xc.Cmp(one) == 0 && xe == 0 && !xneg {
		return true
	}
	if yc.Cmp(one) == 0 && ye == 0 {
		return true
	}
	yint := ye >= 0
	if xneg && !yint {
		return true
	}
	if xc.Cmp(one) == 0 { // power of ten
		if !yneg && yint {
			return true
		}
		if !xneg && xe%2 == 0 && yc.Cmp(big.NewInt(5)) == 0 && ye == -1 {
			return true
		}
	}
	return false
}
