package main

import (
	"math/big"
	"strings"

	d128 "github.com/woodsbury/decimal128"
)

func (g *Gen) parse(via, s string) Ev {
	e := Ev{"op": "Parse", "via": via, "s": ints([]byte(s))}
	if (via == "UnmarshalText" || via == "Sscan") && g.r.Intn(4) != 0 {
		e.setDec("prev", mk(true, big.NewInt(777), -3)) // the receiver before the call: an error must leave it alone
	}
	return g.emit(e)
}

func (g *Gen) parseAllVias(s string, valid bool) {
	g.parse("Parse", s)
	switch g.r.Intn(3) {
	case 0:
		g.parse("MustParse", s)
	case 1:
		g.parse("UnmarshalText", s)
	}
	if valid && g.r.Intn(2) == 0 {
		g.parse("Sscan", s)
	}
}

var synAlphabet = []byte{'0', '7', '.', '_', 'e', 'E', '+', '-', 'i', 'n', 'f', 'a', 'N', 'x'}

// all strings over the alphabet of the given length, shard-partitioned
func (g *Gen) enumStrings(alpha []byte, length int) {
	n := 1
	for i := 0; i < length; i++ {
		n *= len(alpha)
	}
	buf := make([]byte, length)
	for idx := g.shard; idx < n && !g.w.full(); idx += g.nshards {
		v := idx
		for i := 0; i < length; i++ {
			buf[i] = alpha[v%len(alpha)]
			v /= len(alpha)
		}
		g.parse("Parse", string(buf))
	}
}

func (g *Gen) digitsStr(n int) string {
	var sb strings.Builder
	for i := 0; i < n; i++ {
		sb.WriteByte(byte('0' + g.r.Intn(10)))
	}
	return sb.String()
}

// a well-formed literal built from parts; returns the text
func (g *Gen) validLiteral() string {
	var sb strings.Builder
	switch g.r.Intn(4) {
	case 0:
		sb.WriteByte('+')
	case 1:
		sb.WriteByte('-')
	}
	lens := []int{0, 1, 2, 5, 17, 18, 19, 20, 21, 33, 34, 35, 36, 37, 38, 39, 40, 41, 50, 77, 100}
	ni := lens[g.r.Intn(len(lens))]
	nf := lens[g.r.Intn(len(lens))]
	if g.r.Intn(3) == 0 {
		nf = 0
	}
	if ni == 0 && nf == 0 {
		ni = 1
	}
	ip := g.digitsStr(ni)
	fp := g.digitsStr(nf)
	switch g.r.Intn(6) {
	case 0: // leading zeros
		ip = strings.Repeat("0", g.r.Intn(45)) + ip
	case 1: // zeros after the point
		fp = strings.Repeat("0", g.r.Intn(60)) + fp
	case 2: // trailing zeros
		ip = ip + strings.Repeat("0", g.r.Intn(45))
	}
	under := func(s string) string {
		if len(s) < 2 || g.r.Intn(4) != 0 {
			return s
		}
		k := 1 + g.r.Intn(len(s)-1)
		return s[:k] + "_" + s[k:]
	}
	sb.WriteString(under(ip))
	if nf > 0 || g.r.Intn(5) == 0 {
		if ni == 0 && len(fp) == 0 {
			fp = "0"
		}
		sb.WriteByte('.')
		sb.WriteString(under(fp))
	}
	if g.r.Intn(2) == 0 {
		sb.WriteByte("eE"[g.r.Intn(2)])
		switch g.r.Intn(3) {
		case 0:
			sb.WriteByte('+')
		case 1:
			sb.WriteByte('-')
		}
		var ex int
		switch g.r.Intn(8) {
		case 0:
			ex = g.r.Intn(50)
		case 1:
			ex = 6000 + g.r.Intn(400)
		case 2:
			ex = []int{6111, 6144, 6145, 6146, 6176, 6177, 6178, 6189, 6190, 6191, 6210, 6211, 6215, 6216, 6250, 9999, 32767, 32768, 65535, 65536, 99999, 2147483647, 2147483648}[g.r.Intn(23)]
		case 3:
			ex = g.r.Intn(7000)
		default:
			ex = g.r.Intn(400)
		}
		es := big.NewInt(int64(ex)).String()
		if g.r.Intn(6) == 0 {
			es = strings.Repeat("0", g.r.Intn(12)) + es
		}
		if g.r.Intn(40) == 0 {
			es = g.digitsStr(10 + g.r.Intn(30))
		}
		sb.WriteString(under(es))
	}
	return sb.String()
}

// a literal denoting C.tail * 10^e with a full coefficient: rounding rows at the 34/35-digit boundary
func (g *Gen) tieLiteral() string {
	c := g.fullCoef()
	k := 1 + g.r.Intn(12)
	t := g.tail(k).String()
	t = strings.Repeat("0", k-len(t)) + t
	if g.r.Intn(3) == 0 {
		t += strings.Repeat("0", g.r.Intn(30))
		if g.r.Intn(2) == 0 {
			t += "1"
		}
	}
	digs := c.String() + t
	e := randExp(g.r) - k
	switch g.r.Intn(4) {
	case 0:
		e = eMin - k - g.r.Intn(3) + 1
	case 1:
		e = eMax - k - g.r.Intn(3) + 1
	}
	sign := []string{"", "-", "+"}[g.r.Intn(3)]
	// place the point somewhere and compensate in the exponent
	p := g.r.Intn(len(digs) + 1)
	ex := e + (len(digs) - p)
	return sign + digs[:p] + "." + digs[p:] + "e" + big.NewInt(int64(ex)).String()
}

func (g *Gen) longLiteral() string {
	lens := []int{1000, 5000, 32766, 32767, 32768, 32769, 40000, 65535, 65536, 65537, 70000}
	n := lens[g.r.Intn(len(lens))]
	if g.tier != "thorough" && n > 33000 && g.r.Intn(3) != 0 {
		n = lens[g.r.Intn(6)]
	}
	switch g.r.Intn(5) {
	case 0: // 0.000...0001
		return "0." + strings.Repeat("0", n) + g.digitsStr(1+g.r.Intn(40)) + "1"
	case 1: // 1000...000
		return "1" + strings.Repeat("0", n)
	case 2: // long fraction compensated by the exponent
		return "0." + strings.Repeat("0", n) + "123e" + big.NewInt(int64(n+g.r.Intn(60)-30)).String()
	case 3: // long integer with a negative exponent
		return g.digitsStr(1+g.r.Intn(30)) + strings.Repeat("0", n) + "e-" + big.NewInt(int64(n+g.r.Intn(60)-30)).String()
	default:
		return g.digitsStr(n) + "." + g.digitsStr(g.r.Intn(100))
	}
}

func (g *Gen) mutate(s string) string {
	b := []byte(s)
	if len(b) == 0 {
		return "x"
	}
	switch g.r.Intn(5) {
	case 0:
		b[g.r.Intn(len(b))] = synAlphabet[g.r.Intn(len(synAlphabet))]
	case 1:
		k := g.r.Intn(len(b) + 1)
		b = append(b[:k], append([]byte{synAlphabet[g.r.Intn(len(synAlphabet))]}, b[k:]...)...)
	case 2:
		k := g.r.Intn(len(b))
		b = append(b[:k], b[k+1:]...)
	case 3:
		b[g.r.Intn(len(b))] = byte(g.r.Intn(256))
	default:
		b = append(b, []byte{' ', 0, 0xff, '\n', 'd'}[g.r.Intn(5)])
	}
	return string(b)
}

// longSyntax: digit runs long enough to cross the parser's accumulator switch-overs (19/20 and 38/39/40 digits), with
// one well-formed or ill-formed separator / point / exponent construct placed after a chosen number of digits
func (g *Gen) longSyntax() string {
	n1 := []int{17, 18, 19, 20, 21, 22, 36, 37, 38, 39, 40, 41, 45}[g.r.Intn(13)]
	n2 := g.r.Intn(25)
	glue := []string{"_.", "._", "_e5", "e_5", "__", "_", "..", ".", "e5e5", "_.5", "._5", "e+_5", "e5_", "_e", ".e5", "e", "e+", "_E-3", "."}[g.r.Intn(19)]
	sign := []string{"", "-", "+"}[g.r.Intn(3)]
	return sign + g.digitsStr(n1) + glue + g.digitsStr(n2)
}

// scanStream: several values on one input stream for fmt.Fscan: well-formed numerals, special names (long forms leave
// their tail in the stream), junk, every kind of white space between them or none at all
func (g *Gen) scanStream() {
	k := 1 + g.r.Intn(4)
	seps := []string{" ", " ", "\t", "\n", "  ", "\r\n", " \n\t ", "", "x", ","}
	specials := []string{"inf", "Inf", "INF", "+inf", "-Inf", "Infinity", "-infinity", "nan", "NaN", "NAN", "infx", "in", "i", "n", "na", "nax", "iNf", "-nan", "+NaN"}
	junk := []string{"x", "1x", "--1", "+-1", "1e", "e5", "_1", "1__2", ".", "+", "-", "1e+", "1.2.3", "1+2", "1-2", "1e5-3", "0x10", "1_", "_", "1e5e5", "++1", "5.", ".5", "1._5"}
	var sb strings.Builder
	if g.r.Intn(3) == 0 {
		sb.WriteString(seps[g.r.Intn(7)])
	}
	np := k + g.r.Intn(2) - g.r.Intn(2)
	if np < 0 {
		np = 0
	}
	for i := 0; i < np; i++ {
		switch g.r.Intn(10) {
		case 0, 1:
			sb.WriteString(specials[g.r.Intn(len(specials))])
		case 2:
			sb.WriteString(junk[g.r.Intn(len(junk))])
		case 3:
			sb.WriteString(g.tieLiteral())
		case 4:
			sb.WriteString([]string{"1e7000", "-1e99999", "9.9e6144", "1e-7000", "1e6145", "9999999999999999999999999999999999e6111", "99999999999999999999999999999999995e6110"}[g.r.Intn(7)])
		default:
			sb.WriteString(g.validLiteral())
		}
		if i < np-1 || g.r.Intn(3) == 0 {
			sb.WriteString(seps[g.r.Intn(len(seps))])
		}
	}
	e := Ev{"op": "ScanStream", "s": ints([]byte(sb.String())), "k": k}
	e.setDec("prev", mk(false, big.NewInt(777), -3))
	g.emit(e)
	// the same stream read through a reader that fails with an I/O error at a drawn position (ASCII streams only: the
	// position is a byte count)
	if s := sb.String(); len(s) > 0 && g.r.Intn(3) == 0 {
		ascii := true
		for i := 0; i < len(s); i++ {
			if s[i] >= 0x80 {
				ascii = false
			}
		}
		if ascii {
			e2 := Ev{"op": "ScanStream", "s": ints([]byte(s)), "k": k, "failat": g.r.Intn(len(s) + 1)}
			e2.setDec("prev", mk(false, big.NewInt(777), -3))
			g.emit(e2)
		}
	}
}

func (g *Gen) scanVerb() {
	verbs := []byte{'e', 'E', 'f', 'F', 'g', 'G', 'v', 'v', 'v', 'd', 's', 'x', 'q', 't', 'b', 'c', 'U', 'T', 'p', 'z'}
	s := g.validLiteral()
	switch g.r.Intn(6) {
	case 0:
		s = " " + s + " 7"
	case 1:
		s = []string{"inf", "-Inf", "NaN", "Infinity", "x", "", " ", "1e", "1_", "--1"}[g.r.Intn(10)]
	case 2:
		s = g.tieLiteral()
	}
	g.emit(Ev{"op": "Scan", "s": ints([]byte(s)), "verb": int(verbs[g.r.Intn(len(verbs))])})
}

func genC05(g *Gen) {
	g.setMode(0)
	// (1) exhaustive syntax enumeration (share of the budget)
	budget := g.w.max
	g.w.max = budget * 35 / 100
	maxLen := 4
	if g.thorough() {
		maxLen = 5
	}
	for l := 0; l <= maxLen && !g.w.full(); l++ {
		g.enumStrings(synAlphabet, l)
	}
	if g.thorough() {
		g.enumStrings([]byte{'1', '.', '_', 'e', '-'}, 7)
	}
	g.w.max = budget
	g.parseGrid(0.2)
	g.edgeLiteralGrid(0.15)
	specials := []string{"NaN", "nan", "NAN", "nAn", "Inf", "inf", "INF", "+Inf", "-inf", "Infinity", "-INFINITY", "+infinity", "iNfInItY", "+NaN", "-nan",
		"in", "infi", "infinit", "infinityy", "na", "nann", "", "+", "-", ".", "-.", "+.", "e", "e5", ".e5", "1e", "1e+", "1e-", "0", "-0", "+0", "0e0", "-0.000e-7000", "00", "0_0", "_0", "0_",
		"1_.0", "1._0", "1_e5", "1e_5", "1e5_", "1.5_e1", "1__0", "1_0_0", "1e1_0", "1e+_1", "1.", ".5", "5.e3", "1..0", "1.0.0", "1e5e5", "1e5.0", "--1", "+-1", "1+1", "1e++1", " 1", "1 ", "0x10", "1,5", "١"}
	for !g.w.full() {
		switch g.r.Intn(17) {
		case 14, 15:
			if g.r.Intn(4) == 0 {
				g.setMode(g.r.Intn(6))
			}
			g.scanStream()
		case 16:
			g.scanVerb()
		case 13:
			if g.r.Intn(8) == 0 {
				g.parse("Parse", g.longLiteral())
			}
		case 0:
			g.parseAllVias(specials[g.r.Intn(len(specials))], false)
		case 1, 2, 3:
			// the same tie literal under every DefaultRoundingMode
			s := g.tieLiteral()
			for m := 0; m < 6; m++ {
				g.setMode(m)
				g.parse("Parse", s)
			}
			g.setMode(0)
		case 5, 6:
			s := g.validLiteral()
			g.parseAllVias(g.mutate(s), false)
		case 4, 12:
			g.parseAllVias(g.longSyntax(), false)
		case 7:
			b := make([]byte, g.r.Intn(12))
			for i := range b {
				b[i] = byte(g.r.Intn(256))
			}
			g.parseAllVias(string(b), false)
		default:
			if g.r.Intn(5) == 0 {
				g.setMode(g.r.Intn(6))
			}
			g.parseAllVias(g.validLiteral(), true)
		}
	}
}

// ---- C06 ---------------------------------------------------------------------

func (g *Gen) str(x d128.Decimal) { g.un("String", x) }

func genC06(g *Gen) {
	g.setMode(0)
	g.encodingGrid(0.1, func(x d128.Decimal) { g.str(x) })
	// every text is exact, so reading it back must not depend on DefaultRoundingMode: values whose positional text is long
	// (the parser keeps 39 digits and drops the rest, zeros or not) and ordinary ones, under each of the six modes
	{
		vals := []d128.Decimal{mk(false, big.NewInt(1), 40), mk(true, big.NewInt(1), 40), mk(false, big.NewInt(123456789), 45), mk(true, big.NewInt(123456789), 45),
			mk(false, big.NewInt(7), 6100), mk(false, g.fullCoef(), 20), mk(true, g.fullCoef(), 7), mk(false, pow10(34), 10), mk(false, big.NewInt(15), -1),
			mk(true, big.NewInt(1), -40), mk(false, g.fullCoef(), -6176), mk(false, cMax, eMax)}
		g.gridRun(len(vals)*6, 0.05, func(i int) {
			g.setMode(i % 6)
			g.str(vals[i/6])
			g.setMode(0)
		})
	}
	for !g.w.full() {
		switch g.r.Intn(9) {
		case 8: // both ends of the range, every coefficient shape; word-boundary coefficients
			if g.r.Intn(3) == 0 {
				g.str(mk(g.r.Intn(2) == 0, g.boundaryCoef(), g.r.Intn(61)-40))
			} else if g.r.Intn(2) == 0 {
				g.str(g.topValue())
			} else {
				g.str(g.bottomValue())
			}
		case 0:
			g.str(randAny(g.r))
		case 1:
			g.str(rawDec(g.r.Uint64(), g.r.Uint64()))
		case 2: // results of arithmetic fed back
			x, y := randFinite(g.r), randFinite(g.r)
			e := g.bin([]string{"Add", "Mul", "Quo"}[g.r.Intn(3)], x, y, g.r.Intn(6))
			g.str(e.dec("r"))
		default:
			// nd significant digits, tz trailing zeros, adjusted exponent near a layout switch
			nd := 1 + g.r.Intn(35)
			tz := g.r.Intn(36 - nd)
			c := randDigits(g.r, nd)
			if c.Bit(0) == 0 && new(big.Int).Mod(c, ten).Sign() == 0 {
				c.Add(c, big.NewInt(1))
			}
			c.Mul(c, pow10(tz))
			if c.Cmp(cMax) > 0 {
				c = new(big.Int).Set(cMax)
			}
			adj := []int{-7, -6, -5, -4, -3, -1, 0, 1, 4, 5, 6, 7, 9, 10, 11, 20, 21, 22, 99, 100, 101, 999, 1000, 1001, -9, -10, -11, -99, -100, -101, -999, -1000, -1001, 6144, 6145, -6176, -6175, 6111, -6142}[g.r.Intn(39)]
			if g.r.Intn(4) == 0 {
				adj = g.r.Intn(12000) - 6000
			}
			e := clampExp(adj - (len(c.String()) - 1))
			g.str(mk(g.r.Intn(2) == 0, c, e))
		}
	}
}
