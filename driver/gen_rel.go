package main

import (
	"math/big"

	d128 "github.com/woodsbury/decimal128"
)

// Round 7 families.
//
// (1) RELATIONS between the two operands.  The other grids choose each operand from a class; a step that compares the
//     operands with each other (equal coefficients, one an exact multiple of the other, exponents that add up to an end of
//     the range, both operands subnormal, a result that is exactly the largest finite number or the smallest subnormal)
//     is decided by a relation no product of classes contains.
// (2) RESULT-structured operands.  The word-structured family of gen_word.go shapes an OPERAND; here the operands are
//     solved for so that the kept coefficient of the RESULT, before the rounding increment, is Q = h*2^64 + l with
//     l in {0, 1, 2^64-2, 2^64-1} (and Q = 10^k - 1, cMax - 1, cMax): the increment then carries, or must not carry, across
//     the word boundary -- for Add/Sub (alignment), Mul (product cut by 10^k), Quo (long division) and the quantisers.
// (3) PRODUCT-word operands: a*b whose 256-bit product has a middle word of 0 or all ones (solved with the lattice of
//     gen_hard.go), for the multi-word divisions by 10, 10^4, 10^8, 10^19 that reduce the product.

var relMults = []int64{2, 3, 4, 5, 7, 8, 9, 10, 11, 16, 25, 64, 99, 100, 101, 125, 1000, 1 << 32, 1000000007}
var relGaps = []int{0, 1, 2, 3, 16, 17, 18, 19, 20, 21, 32, 33, 34, 35, 36, 37, 38, 39, 40, 41, 70, 100, 1000, 6000, 12000}

// relGrid: cells of operand relations; f gets the pair
func (g *Gen) relGrid(share float64, f func(x, y d128.Decimal, kind string)) {
	nG, nM := len(relGaps), len(relMults)
	n := nG*3 + nM*4 + 80 + 40 + 48
	g.gridRun(n, share, func(i int) {
		neg1, neg2 := g.r.Intn(2) == 0, g.r.Intn(2) == 0
		switch {
		case i < nG*3: // equal coefficients, different exponents
			gap := relGaps[i%nG]
			var c *big.Int
			switch i / nG {
			case 0:
				c = g.fullCoef()
			case 1:
				c = randDigits(g.r, 1+g.r.Intn(33))
			default:
				c, _ = g.wordCoefRandom()
			}
			e := g.r.Intn(41) - 20
			if e+gap > eMax {
				e = eMax - gap
			}
			if e < eMin {
				return
			}
			f(mk(neg1, c, e+gap), mk(neg2, c, e), "eqcoef")
			return
		}
		i -= nG * 3
		switch {
		case i < nM*4: // one coefficient an exact multiple of the other
			k := big.NewInt(relMults[i%nM])
			var c *big.Int
			switch i / nM {
			case 0:
				c = randDigits(g.r, 1+g.r.Intn(16))
			case 1:
				c = new(big.Int).Div(cMax, k) // the multiple is the largest one that fits
			case 2:
				c = new(big.Int).Div(randDigits(g.r, 34), k)
			default:
				c = new(big.Int).Add(new(big.Int).Div(new(big.Int).Lsh(big.NewInt(1), 64), k), big.NewInt(int64(g.r.Intn(3)))) // multiple ~ 2^64
			}
			if c.Sign() == 0 {
				c = big.NewInt(1)
			}
			kc := new(big.Int).Mul(c, k)
			if kc.Cmp(cMax) > 0 {
				return
			}
			e := g.r.Intn(41) - 20
			gap := []int{0, 0, 1, 5, 19, 34}[g.r.Intn(6)]
			f(mk(neg1, kc, e), mk(neg2, c, e-gap), "multiple")
			f(mk(neg1, kc, e-gap), mk(neg2, c, e), "multiple")
			return
		}
		i -= nM * 4
		switch {
		case i < 80: // exponents that add up (Mul) or differ (Quo) to exactly an end of the range, and 1..3 / 33..36 beyond
			offs := []int{-36, -35, -34, -33, -2, -1, 0, 1, 2, 33}
			off := offs[i%10]
			top := (i/10)%2 == 1
			target := eMin + off
			if top {
				target = eMax - off
			}
			// split the target: ex + ey = target
			ex := target/2 + g.r.Intn(2001) - 1000
			ey := target - ex
			var cx, cy *big.Int
			switch (i / 20) % 4 {
			case 0:
				cx, cy = big.NewInt(int64(1+g.r.Intn(9))), big.NewInt(int64(1+g.r.Intn(9)))
			case 1:
				cx, cy = randDigits(g.r, 17+g.r.Intn(2)), randDigits(g.r, 17+g.r.Intn(2))
			case 2:
				cx, cy = g.fullCoef(), g.fullCoef()
			default:
				cx, cy = g.fullCoef(), big.NewInt(int64(1+g.r.Intn(99)))
			}
			if ex < eMin || ex > eMax || ey < eMin || ey > eMax {
				return
			}
			f(mk(neg1, cx, ex), mk(neg2, cy, ey), "expsum")
			// the same target as a difference: x / y with ex - ey' = target
			ey2 := ex - target
			if ey2 >= eMin && ey2 <= eMax {
				f(mk(neg1, cx, ex), mk(neg2, cy, ey2), "expdiff")
			}
			return
		}
		i -= 80
		switch {
		case i < 40: // both operands subnormal (coefficients of 1..33 digits at the smallest exponents)
			nx, ny := 1+i%33, 1+(i*7)%33
			x := mk(neg1, randDigits(g.r, nx), eMin+(i/20)*g.r.Intn(3))
			y := mk(neg2, randDigits(g.r, ny), eMin+g.r.Intn(2)*(i%2))
			f(x, y, "bothsub")
			return
		}
		i -= 40
		// results exactly at / just beside the largest finite number and the smallest subnormal
		one := big.NewInt(1)
		top := new(big.Int).Sub(pow10(34), one) // 9.99..9e6144 is the largest finite VALUE (coefficient 10^34-1 at eMax)
		switch i % 8 {
		case 0: // (top - t) + t
			t := randDigits(g.r, 1+g.r.Intn(33))
			f(mk(neg1, new(big.Int).Sub(top, t), eMax), mk(neg1, t, eMax), "top")
		case 1: // top + tail below the last place: stays top or overflows by the mode
			f(mk(neg1, top, eMax), mk(neg1, g.tail(1+g.r.Intn(5)), eMax-1-g.r.Intn(5)), "top")
		case 2: // top - tail: rounds back to top or to its predecessor
			f(mk(neg1, top, eMax), mk(!neg1, g.tail(1+g.r.Intn(5)), eMax-1-g.r.Intn(5)), "top")
		case 3: // factors of 10^34 - 1 = (10^17 - 1)(10^17 + 1)
			a, b := new(big.Int).Sub(pow10(17), one), new(big.Int).Add(pow10(17), one)
			ex := eMax - g.r.Intn(200)
			f(mk(neg1, a, ex), mk(neg2, b, eMax-ex), "topmul")
		case 4: // the 35-digit band at eMax: cMax itself, and cMax + tail
			f(mk(neg1, cMax, eMax), mk(neg1, g.tail(1+g.r.Intn(5)), eMax-1-g.r.Intn(5)), "top")
		case 5: // smallest subnormal from below: (1 - t) * 10^eMin style sums of subnormals
			f(mk(neg1, big.NewInt(1), eMin), mk(!neg1, big.NewInt(int64(g.r.Intn(3))), eMin), "bottom")
		case 6: // products landing between 0 and the smallest subnormal: 0.d * 10^eMin
			d := []int64{1, 4, 5, 6, 9, 49, 50, 51, 99, 500000001}[g.r.Intn(10)]
			nd := len(big.NewInt(d).String())
			ex := eMin/2 - g.r.Intn(100)
			f(mk(neg1, big.NewInt(d), ex), mk(neg2, one, eMin-nd-ex), "bottommul")
		default: // quotients landing there: d * 10^(eMin+a) / 10^(a+nd)
			d := []int64{1, 4, 5, 6, 9, 49, 50, 51, 99, 500000001}[g.r.Intn(10)]
			nd := len(big.NewInt(d).String())
			a := g.r.Intn(30)
			f(mk(neg1, big.NewInt(d), eMin+a), mk(neg2, pow10(min(a+nd, 34)), max(0, a+nd-34)), "bottomquo")
		}
	})
}

var resLows = []string{"0", "1", "18446744073709551614", "18446744073709551615"}

// a kept coefficient Q of exactly nd digits (nd >= 21) whose low 64-bit word is one of the special contents, or one of
// the decimal carry points
func (g *Gen) resultCoef(i int) *big.Int {
	one := big.NewInt(1)
	switch i % 7 {
	case 4:
		return new(big.Int).Sub(pow10(34), one)
	case 5:
		return new(big.Int).Sub(cMax, big.NewInt(int64(g.r.Intn(2))))
	case 6:
		return new(big.Int).Sub(pow10(33), big.NewInt(int64(g.r.Intn(2)))) // 10^33 resp. 10^33 - 1
	}
	l, _ := new(big.Int).SetString(resLows[i%7], 10)
	// h so that Q has 34 digits (or lies in the 35-digit band for some i)
	lo := new(big.Int).Rsh(pow10(33), 64)
	hi := new(big.Int).Rsh(cMax, 64)
	if (i/7)%5 != 0 {
		hi = new(big.Int).Rsh(pow10(34), 64)
	}
	h := new(big.Int).Add(lo, new(big.Int).Rand(g.r, new(big.Int).Sub(hi, lo)))
	h.Add(h, one)
	q := new(big.Int).Lsh(h, 64)
	q.Or(q, l)
	if q.Cmp(cMax) > 0 || q.Cmp(pow10(33)) < 0 {
		q, _ = new(big.Int).SetString("5534023222112865484800000000000000", 10)
		q.Rsh(q, 64).Lsh(q, 64).Or(q, l)
	}
	return q
}

// resultWordGrid: Add/Sub, Mul, Quo whose kept result coefficient (before the increment) is resultCoef; every mode
func (g *Gen) resultWordGrid(share float64, ops string) {
	n := 7 * 5 * 6
	g.gridRun(n, share, func(i int) {
		q := g.resultCoef(i)
		j := []int{1, 2, 3, 8, 19, 20}[(i/35)%6] // digits dropped below Q
		t := g.tail(j)                           // the dropped part, 0 <= t < 10^j
		neg := g.r.Intn(2) == 0
		e := g.r.Intn(41) - 20
		if ops == "add" {
			// x = (Q - a) * 10^j at e+j?  keep it simple: x = Q - a (34 digits, exponent e), y = a.t * 10^-j
			a := randDigits(g.r, 1+g.r.Intn(20))
			if a.Cmp(q) >= 0 {
				a = big.NewInt(1)
			}
			x := mk(neg, new(big.Int).Sub(q, a), e)
			yv := new(big.Int).Add(new(big.Int).Mul(a, pow10(j)), t)
			if yv.Cmp(cMax) > 0 {
				return
			}
			y := mk(neg, yv, e-j)
			g.allModes("Add", x, y)
			g.someModes("Sub", x, y.Neg(), 2)
			// effective subtraction: (Q + a + 1) - (a + 1 - 0.t) = Q + 0.t
			a1 := new(big.Int).Add(a, big.NewInt(1))
			x2c := new(big.Int).Add(q, a1)
			y2v := new(big.Int).Sub(new(big.Int).Mul(a1, pow10(j)), t)
			if x2c.Cmp(cMax) <= 0 && y2v.Cmp(cMax) <= 0 && y2v.Sign() > 0 {
				g.allModes("Sub", mk(neg, x2c, e), mk(neg, y2v, e-j))
			}
			return
		}
		if ops == "mul" {
			// a slightly below 10^j (or a factor split when j is small), b = ceil(Q * 10^j / a): a*b in [Q*10^j, Q*10^j + a)
			var a *big.Int
			jj := j
			if jj < 3 {
				jj = 3 + g.r.Intn(14)
			}
			a = new(big.Int).Sub(pow10(jj), new(big.Int).Rand(g.r, new(big.Int).Div(pow10(jj), big.NewInt(8))))
			a.Sub(a, big.NewInt(1))
			if a.Sign() <= 0 {
				return
			}
			num := new(big.Int).Mul(q, pow10(jj))
			b := new(big.Int).Div(num, a)
			for d := 0; d < 3; d++ { // ceil and its neighbours: just above, at, just below Q * 10^jj
				bb := new(big.Int).Add(b, big.NewInt(int64(d)))
				if bb.Cmp(cMax) > 0 || bb.Sign() == 0 {
					continue
				}
				g.allModes("Mul", mk(neg, a, e), mk(g.r.Intn(2) == 0, bb, g.r.Intn(21)-10))
			}
			return
		}
		// quo: A * 10^34 = Q * B + r, 0 <= r < B, B coprime to 10 with B > 10^33
		for try := 0; try < 30; try++ {
			b := new(big.Int).Add(pow10(33), new(big.Int).Rand(g.r, new(big.Int).Sub(cMax, pow10(33))))
			b.Or(b, big.NewInt(1))
			if new(big.Int).Mod(b, big.NewInt(5)).Sign() == 0 {
				continue
			}
			s := 34
			m := pow10(s)
			r := new(big.Int).Mul(q, b)
			r.Neg(r).Mod(r, m)
			if r.Cmp(b) >= 0 {
				continue
			}
			a := new(big.Int).Add(new(big.Int).Mul(q, b), r)
			a.Div(a, m)
			if a.Cmp(cMax) > 0 || a.Sign() == 0 {
				continue
			}
			g.allModes("Quo", mk(neg, a, e), mk(g.r.Intn(2) == 0, b, g.r.Intn(21)-10))
			return
		}
	})
}

// prodWordGrid: a * b (both coefficients) whose 256-bit product has word 1 or word 2 equal to 0 or all ones
func (g *Gen) prodWordGrid(share float64, f func(x, y d128.Decimal)) {
	g.gridRun(4*6, share, func(i int) {
		word := 1 + i%2
		ones := (i/2)%2 == 1
		m := new(big.Int).Lsh(big.NewInt(1), uint(64*(word+1)))
		half := new(big.Int).Lsh(big.NewInt(1), uint(64*word-1))
		t := new(big.Int).Set(half) // centre of [0, 2^(64 word))
		if ones {
			t.Sub(m, half)
		}
		var a *big.Int
		switch i / 4 {
		case 0, 1:
			a = g.fullCoef()
		case 2:
			a = randDigits(g.r, 20+g.r.Intn(14))
		case 3:
			a = randDigits(g.r, 34)
		default:
			a = new(big.Int).Add(new(big.Int).Lsh(big.NewInt(1), 64), new(big.Int).Rand(g.r, new(big.Int).Lsh(big.NewInt(1), 48)))
		}
		if a.Bit(0) == 0 {
			a.Add(a, big.NewInt(1))
		}
		if a.Cmp(cMax) > 0 {
			a.Sub(a, big.NewInt(2))
		}
		lo := new(big.Int).Lsh(big.NewInt(1), uint(64*word-20))
		if lo.Cmp(pow10(33)) > 0 || word == 1 {
			lo = pow10(20 + g.r.Intn(13))
		}
		b := closestResidue(a, m, t, lo, cMax)
		if b == nil || b.Sign() <= 0 || b.Cmp(cMax) > 0 {
			return
		}
		// check the construction (a generator fault must not pass silently as coverage)
		p := new(big.Int).Mul(a, b)
		w := new(big.Int).Rsh(p, uint(64*word))
		w.And(w, new(big.Int).SetUint64(^uint64(0)))
		if ones && w.Cmp(new(big.Int).SetUint64(^uint64(0))) != 0 || !ones && w.Sign() != 0 {
			return
		}
		gridHits["prodWord"]++
		f(mk(g.r.Intn(2) == 0, a, g.r.Intn(41)-20), mk(g.r.Intn(2) == 0, b, g.r.Intn(41)-20))
	})
}

var gridHits = map[string]int{}

// subTwoLevelGrid: effective subtractions whose exact difference is  K (34 digits) | g | 0..b..0 (four digits) | f zeros |
// minus a few units far below: a guard digit, ONE more non-zero digit somewhere in the four places below it, and a negative
// sticky part that comes from digits of the smaller operand cut off during alignment.  The reduction of the 38/39-digit
// aligned difference removes those five digits in up to three steps (10^4 at once, then single digits) and has to carry
// "something non-zero was dropped" across the steps while the sticky flag is already negative.
func (g *Gen) subTwoLevelGrid(share float64) {
	leads := []string{"15", "25", "70"}
	gs := []int64{0, 4, 5, 9}
	bps := [][2]int64{{1, 0}, {7, 0}, {1, 1}, {3, 2}, {9, 3}, {0, 0}}
	fs := []int{0, 1, 5, 12}
	n := len(leads) * len(gs) * len(bps) * len(fs)
	g.gridRun(n, share, func(i int) {
		lead := leads[i%3]
		gd := gs[(i/3)%4]
		bp := bps[(i/12)%6]
		f := fs[i/72]
		k, _ := new(big.Int).SetString(lead+randDigits(g.r, 32).String(), 10)
		if len(k.String()) != 34 {
			k, _ = new(big.Int).SetString(lead+"00000000000000000000000000000001", 10)
		}
		if g.r.Intn(2) == 0 { // an even kept coefficient, so that a false tie rounds the other way
			k.Sub(k, big.NewInt(int64(k.Bit(0))))
		}
		t5 := gd*10000 + bp[0]*[]int64{1000, 100, 10, 1}[bp[1]]
		d := new(big.Int).Add(new(big.Int).Mul(k, pow10(5)), big.NewInt(t5))
		d.Mul(d, pow10(f+1))
		d.Sub(d, big.NewInt(int64(1+g.r.Intn(9))))
		m := 20 + f
		pm := pow10(m)
		xc := new(big.Int).Add(d, new(big.Int).Sub(pm, big.NewInt(1)))
		xc.Div(xc, pm)
		yc := new(big.Int).Sub(new(big.Int).Mul(xc, pm), d)
		if yc.Sign() <= 0 || yc.Cmp(cMax) > 0 || xc.Cmp(cMax) > 0 {
			return
		}
		e0 := g.r.Intn(41) - 20
		neg := g.r.Intn(2) == 0
		x, y := mk(neg, xc, e0+m), mk(neg, yc, e0)
		g.allModes("Sub", x, y)
		g.bin("Add", y.Neg(), x, g.r.Intn(6))
		g.bin("Sub", y, x, g.r.Intn(6))
	})
}
