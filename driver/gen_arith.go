package main

import (
	"math/big"

	d128 "github.com/woodsbury/decimal128"
)

// ---- C01: Add / Sub -------------------------------------------------------

func (g *Gen) addSubOp() string {
	if g.r.Intn(2) == 0 {
		return "Add"
	}
	return "Sub"
}

// x = C * 10^e with a full coefficient; y = +-t * 10^(e-k): guard digit and sticky chosen
func (g *Gen) addTie() {
	c := g.fullCoef()
	k := 1 + g.r.Intn(46)
	if g.r.Intn(8) == 0 {
		k = gapAtoms[g.r.Intn(len(gapAtoms))]
		if k == 0 {
			k = 1
		}
	}
	e := randExp(g.r)
	if e-k < eMin {
		e = eMin + k
	}
	if e > eMax {
		return
	}
	var t *big.Int
	ye := e - k
	if k <= 34 {
		t = g.tail(k)
	} else {
		// a short tail far below: only the swallowed-operand (sticky) path
		n := 1 + g.r.Intn(34)
		t = g.tail(n)
		ye = e - k
	}
	x := mk(g.r.Intn(2) == 0, c, e)
	y := mk(g.r.Intn(2) == 0, t, ye)
	if g.r.Intn(2) == 0 {
		x, y = y, x
	}
	g.allModes(g.addSubOp(), x, y)
}

// near-cancellation and borrow across a power of ten
func (g *Gen) addCancel() {
	e := randExp(g.r)
	c := randCoef(g.r)
	if c.Sign() == 0 {
		c = big.NewInt(1)
	}
	neg := g.r.Intn(2) == 0
	x := mk(neg, c, e)
	var y d128.Decimal
	switch g.r.Intn(5) {
	case 0: // exact cancellation through another cohort member, or the very same encoding
		y = g.cohort(mk(!neg, c, e))
		if g.r.Intn(2) == 0 {
			y = mk(!neg, c, e)
		}
		// the sign of an exact zero depends on the mode: plain and ...WithMode forms under every mode
		g.allDefaultModes("Add", x, y)
		g.allDefaultModes("Sub", x, y.Neg())
	case 1: // off by a unit
		c2 := new(big.Int).Add(c, big.NewInt(int64(g.r.Intn(3)-1)))
		if c2.Sign() < 0 || c2.Cmp(cMax) > 0 {
			c2 = c
		}
		y = mk(!neg, c2, e)
	case 2: // 10^k - tiny
		k := g.r.Intn(35)
		x = mk(neg, pow10(k), e)
		gp := g.gap()
		y = mk(!neg, g.tail(1+g.r.Intn(5)), clampExp(e-gp))
	default: // same magnitude region, different digits
		y = mk(!neg, randCoef(g.r), clampExp(e+g.r.Intn(5)-2))
	}
	if g.r.Intn(2) == 0 {
		x, y = y, x
	}
	g.allModes("Add", x, y)
	if g.r.Intn(3) == 0 {
		g.allModes("Sub", x, y.Neg())
	}
}

// another member of the same cohort (same value, different exponent), if there is one
func (g *Gen) cohort(d d128.Decimal) d128.Decimal {
	kind, neg, c, e := unmk(d)
	if kind != 0 {
		return d
	}
	if c.Sign() == 0 {
		return mk(neg, c, randExp(g.r))
	}
	c2 := new(big.Int).Set(c)
	e2 := e
	steps := g.r.Intn(36)
	if g.r.Intn(2) == 0 {
		for i := 0; i < steps; i++ {
			n := new(big.Int).Mul(c2, ten)
			if n.Cmp(cMax) > 0 || e2-1 < eMin {
				break
			}
			c2, e2 = n, e2-1
		}
	} else {
		for i := 0; i < steps; i++ {
			q, r := new(big.Int).QuoRem(c2, ten, new(big.Int))
			if r.Sign() != 0 || e2+1 > eMax {
				break
			}
			c2, e2 = q, e2+1
		}
	}
	return mk(neg, c2, e2)
}

func (g *Gen) addRandom() {
	x := randFinite(g.r)
	_, _, _, e := unmk(x)
	gp := g.gap()
	if g.r.Intn(2) == 0 {
		gp = -gp
	}
	y := mk(g.r.Intn(2) == 0, randCoef(g.r), clampExp(e-gp))
	g.someModes(g.addSubOp(), x, y, 2)
}

func (g *Gen) addEdges() {
	// zeros, overflow and the subnormal end
	switch g.r.Intn(4) {
	case 0:
		x := mk(g.r.Intn(2) == 0, new(big.Int), randExp(g.r))
		y := mk(g.r.Intn(2) == 0, new(big.Int), randExp(g.r))
		g.allModes(g.addSubOp(), x, y)
	case 1:
		x := mk(g.r.Intn(2) == 0, new(big.Int), randExp(g.r))
		y := randFinite(g.r)
		if g.r.Intn(2) == 0 {
			x, y = y, x
		}
		g.someModes(g.addSubOp(), x, y, 2)
	case 2: // top of the range
		x := mk(g.r.Intn(2) == 0, g.fullCoef(), eMax-g.r.Intn(2))
		y := mk(g.r.Intn(2) == 0, randCoef(g.r), eMax-g.r.Intn(40))
		g.allModes(g.addSubOp(), x, y)
	default: // bottom
		x := mk(g.r.Intn(2) == 0, randCoef(g.r), eMin+g.r.Intn(3))
		y := mk(g.r.Intn(2) == 0, randCoef(g.r), eMin+g.r.Intn(40))
		g.allModes(g.addSubOp(), x, y)
	}
}

func genC01(g *Gen) {
	g.setMode(0)
	g.addGrid(0.36)
	g.wordAddGrid(0.16)
	// the operand with the larger exponent has a coefficient just above the largest coefficient once it is scaled to 35
	// digits (leading digits 1.2981 .. 1.45): the scaling loop must stop one step earlier for it than for any other operand,
	// and an effective subtraction brings the result back below the limit; gaps 1..4, both operand orders, all modes
	g.gridRun(120, 0.12, func(i int) {
		lo, _ := new(big.Int).SetString("1298074214633706907132624082305024", 10)
		span, _ := new(big.Int).SetString("151925785366293092867375917694976", 10) // up to 1.45e33
		xc := new(big.Int).Add(lo, new(big.Int).Rand(g.r, span))
		if i%4 == 0 {
			xc = new(big.Int).Add(lo, big.NewInt(int64(g.r.Intn(1000))))
		}
		if i%8 == 1 { // fewer digits: the same leading digits at 20..33 digits
			xc = new(big.Int).Div(xc, pow10(1+g.r.Intn(14)))
		}
		gap := 1 + i%4
		e := g.r.Intn(41) - 20
		neg := g.r.Intn(2) == 0
		x := mk(neg, xc, e+gap)
		y := mk(neg, randDigits(g.r, 34), e)
		if i%3 == 0 {
			y = mk(neg, g.fullCoef(), e)
		}
		g.allModes("Sub", x, y)
		g.someModes("Sub", y, x, 2)
		g.someModes("Add", x, y.Neg(), 2)
	})
	g.relGrid(0.1, func(x, y d128.Decimal, kind string) {
		if kind == "top" || kind == "bottom" {
			g.allModes(g.addSubOp(), x, y)
			return
		}
		g.someModes("Add", x, y, 2)
		g.someModes("Sub", x, y, 2)
		g.someModes(g.addSubOp(), y, x, 1)
	})
	g.resultWordGrid(0.08, "add")
	g.subTwoLevelGrid(0.08)
	g.pairGrid(0.14, func(x, y d128.Decimal) { g.someModes(g.addSubOp(), x, y, 2) })
	g.vanishGrid(0.1, func(x, y d128.Decimal) {
		if g.r.Intn(2) == 0 {
			x, y = y, x
		}
		g.someModes(g.addSubOp(), x, y, 2)
	})
	for !g.w.full() {
		switch g.r.Intn(12) {
		case 11:
			x, y := g.topValue(), g.topValue()
			if g.r.Intn(2) == 0 {
				y = mk(g.r.Intn(2) == 0, g.tail(1+g.r.Intn(6)), eMax-g.r.Intn(45))
			}
			if g.r.Intn(4) == 0 {
				x, y = g.bottomValue(), g.bottomValue()
			}
			g.allModes(g.addSubOp(), x, y)
		case 10:
			x := mk(g.r.Intn(2) == 0, g.wrapCoef(), g.r.Intn(41)-20)
			y := mk(g.r.Intn(2) == 0, g.boundaryCoef(), g.r.Intn(81)-40)
			if g.r.Intn(2) == 0 {
				x, y = y, x
			}
			g.allModes(g.addSubOp(), x, y)
		case 0, 1, 2, 3:
			g.addTie()
		case 4, 5:
			g.addCancel()
		case 6:
			g.addEdges()
		case 7:
			x, y := randAny(g.r), randAny(g.r)
			g.someModes(g.addSubOp(), x, y, 2)
		default:
			g.addRandom()
		}
	}
}

// ---- C02: Mul / Quo -------------------------------------------------------

// factor pairs whose exact product has a chosen tail: c1 * c2 where c2 = 2^a 5^b style or random
func (g *Gen) mulPair() (x, y d128.Decimal) {
	var c1, c2 *big.Int
	switch g.r.Intn(6) {
	case 0: // both below 2^64 (fast path)
		c1 = new(big.Int).SetUint64(g.r.Uint64() >> uint(g.r.Intn(64)))
		c2 = new(big.Int).SetUint64(g.r.Uint64() >> uint(g.r.Intn(64)))
	case 1: // product exactly 35/36 digits with tail 5 / 50..: (odd * 5^k) * 2^j
		c1 = randDigits(g.r, 1+g.r.Intn(20))
		c2 = randDigits(g.r, 16+g.r.Intn(20))
	case 2: // (10^k +- 1)(10^j +- 1)
		c1 = new(big.Int).Add(pow10(1+g.r.Intn(34)), big.NewInt(int64(g.r.Intn(3)-1)))
		c2 = new(big.Int).Add(pow10(1+g.r.Intn(34)), big.NewInt(int64(g.r.Intn(3)-1)))
	case 3:
		c1, c2 = g.fullCoef(), g.fullCoef()
	case 4: // halves: ... * 5 * 10^k
		c1 = g.fullCoef()
		c2 = new(big.Int).Mul(big.NewInt(int64([]int{5, 25, 125, 15, 35, 45}[g.r.Intn(6)])), pow10(g.r.Intn(10)))
	default:
		c1, c2 = randCoef(g.r), randCoef(g.r)
	}
	if c1.Cmp(cMax) > 0 {
		c1 = cMax
	}
	if c2.Cmp(cMax) > 0 {
		c2 = cMax
	}
	e1, e2 := randExp(g.r), randExp(g.r)
	switch g.r.Intn(4) {
	case 0: // product near the bottom of the range
		e2 = clampExp(eMin - e1 - g.r.Intn(75) + 5)
	case 1: // near the top
		e2 = clampExp(eMax - e1 - g.r.Intn(75) + 40)
	}
	return mk(g.r.Intn(2) == 0, c1, e1), mk(g.r.Intn(2) == 0, c2, e2)
}

func (g *Gen) quoPair() (x, y d128.Decimal) {
	var c1, c2 *big.Int
	switch g.r.Intn(7) {
	case 0: // terminating: divisor 2^a 5^b
		c1 = randCoef(g.r)
		c2 = new(big.Int).Mul(new(big.Int).Exp(big.NewInt(2), big.NewInt(int64(g.r.Intn(40))), nil), new(big.Int).Exp(big.NewInt(5), big.NewInt(int64(g.r.Intn(20))), nil))
	case 1: // exact multiples
		c2 = randDigits(g.r, 1+g.r.Intn(17))
		c1 = new(big.Int).Mul(c2, randDigits(g.r, 1+g.r.Intn(17)))
	case 2: // small / small (both one word)
		c1 = new(big.Int).SetUint64(g.r.Uint64() >> uint(g.r.Intn(64)))
		c2 = new(big.Int).SetUint64(g.r.Uint64()>>uint(g.r.Intn(64)) | 1)
	case 3: // repeating: 1/3, 2/7, ...
		c1 = big.NewInt(int64(1 + g.r.Intn(20)))
		c2 = big.NewInt(int64([]int{3, 7, 9, 11, 13, 6, 12, 14, 17, 19, 21, 27, 37, 41, 101}[g.r.Intn(15)]))
	case 4: // wide divisor, dividend just above/below a multiple
		c2 = g.fullCoef()
		c1 = new(big.Int).Add(new(big.Int).Mul(c2, big.NewInt(int64(g.r.Intn(3)))), big.NewInt(int64(g.r.Intn(3)-1)))
		if c1.Sign() <= 0 {
			c1 = g.fullCoef()
		}
	default:
		c1, c2 = randCoef(g.r), randCoef(g.r)
	}
	if c2.Sign() == 0 && g.r.Intn(4) != 0 {
		c2 = big.NewInt(1)
	}
	if c1.Cmp(cMax) > 0 {
		c1 = cMax
	}
	if c2.Cmp(cMax) > 0 {
		c2 = cMax
	}
	e1, e2 := randExp(g.r), randExp(g.r)
	switch g.r.Intn(4) {
	case 0:
		e2 = clampExp(e1 - eMin + g.r.Intn(75) - 5)
	case 1:
		e2 = clampExp(e1 - eMax + g.r.Intn(75) - 40)
	}
	return mk(g.r.Intn(2) == 0, c1, e1), mk(g.r.Intn(2) == 0, c2, e2)
}

func genC02(g *Gen) {
	g.setMode(0)
	g.mulGrid(0.34)
	g.mulWideSubnormalGrid(0.2)
	g.wordMulQuoGrid(0.1)
	// quotients whose inexactness hides eight or more zeros below the guard digit
	g.gridRun(4*2*3, 0.03, func(i int) {
		for try := 0; try < 20; try++ {
			if a, b, ok := g.ratFarStickySigned([]int{0, 4, 5, 9}[i%4], i/8 == 1); ok {
				g.allModes("Quo", mk((i/4)%2 == 1, a, g.r.Intn(41)-20), mk(g.r.Intn(2) == 0, b, g.r.Intn(41)-20))
				return
			}
		}
	})
	// the same with both coefficients multiples of 2^64 (2^32, 2^16): every remainder of the long division then has a zero
	// low word, and the inexactness rests on the remaining words alone
	g.gridRun(4*2*3, 0.03, func(i int) {
		sh := []uint{64, 32, 64}[i/8]
		limit := new(big.Int).Rsh(cMax, sh)
		if limit.Cmp(pow10(29)) > 0 {
			limit = pow10(29)
		}
		for try := 0; try < 40; try++ {
			if a, b, ok := g.ratFarStickySmall([]int{0, 4, 5, 9}[i%4], limit); ok {
				a.Lsh(a, sh)
				b.Lsh(b, sh)
				if a.Cmp(cMax) > 0 || b.Cmp(cMax) > 0 {
					continue
				}
				gridHits["quoWordRem"]++
				g.allModes("Quo", mk((i/4)%2 == 1, a, g.r.Intn(41)-20), mk(g.r.Intn(2) == 0, b, g.r.Intn(41)-20))
				return
			}
		}
	})
	g.quoGrid(0.1)
	g.relGrid(0.08, func(x, y d128.Decimal, kind string) {
		switch kind {
		case "topmul", "bottommul", "expsum":
			g.allModes("Mul", x, y)
		case "bottomquo", "expdiff":
			g.allModes("Quo", x, y)
		default:
			g.someModes("Mul", x, y, 2)
			g.someModes("Quo", x, y, 2)
			g.someModes("Quo", y, x, 1)
		}
	})
	g.resultWordGrid(0.06, "mul")
	g.resultWordGrid(0.05, "quo")
	g.prodWordGrid(0.03, func(x, y d128.Decimal) {
		g.allModes("Mul", x, y)
		g.someModes("Mul", y, x, 1)
	})
	g.pairGrid(0.12, func(x, y d128.Decimal) { g.someModes([]string{"Mul", "Quo"}[g.r.Intn(2)], x, y, 2) })
	for !g.w.full() {
		switch g.r.Intn(18) {
		case 16:
			x, y := g.mulToTop()
			g.allModes("Mul", x, y)
		case 17: // quotients and products of range-end values
			x, y := g.topValue(), g.bottomValue()
			switch g.r.Intn(4) {
			case 0:
				y = mk(g.r.Intn(2) == 0, big.NewInt(int64(1+g.r.Intn(9))), -g.r.Intn(40))
			case 1:
				x, y = y, x
			case 2:
				y = g.topValue()
			}
			g.allModes([]string{"Mul", "Quo"}[g.r.Intn(2)], x, y)
		case 10, 11, 12:
			if x, y, ok := g.mulSolved(); ok {
				g.allModes("Mul", x, y)
			}
		case 13, 14:
			x, y := g.quoSolved()
			g.allModes("Quo", x, y)
		case 15:
			c1, c2 := g.boundaryCoef(), g.boundaryCoef()
			if g.r.Intn(2) == 0 {
				c1 = g.wrapCoef()
			}
			if g.r.Intn(3) == 0 {
				c2 = g.wrapCoef()
			}
			x, y := mk(g.r.Intn(2) == 0, c1, g.r.Intn(41)-20), mk(g.r.Intn(2) == 0, c2, g.r.Intn(41)-20)
			g.allModes([]string{"Mul", "Quo"}[g.r.Intn(2)], x, y)
		case 0, 1, 2, 3:
			x, y := g.mulPair()
			g.allModes("Mul", x, y)
		case 4, 5, 6, 7:
			x, y := g.quoPair()
			g.allModes("Quo", x, y)
		case 8:
			x, y := randAny(g.r), randAny(g.r)
			op := "Mul"
			if g.r.Intn(2) == 0 {
				op = "Quo"
			}
			g.someModes(op, x, y, 2)
		default:
			x, y := randFinite(g.r), randFinite(g.r)
			op := "Mul"
			if g.r.Intn(2) == 0 {
				op = "Quo"
			}
			g.someModes(op, x, y, 2)
		}
	}
}
