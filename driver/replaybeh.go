package main

import (
	"bufio"
	"encoding/json"
	"fmt"
	"math/big"
	"os"

	d128 "github.com/woodsbury/decimal128"
)

// value comparison of an observed register with the value a TLC-generated behaviour expects:
// same class, same sign (also on zero), same exact value -- never bits
func matchesExpected(d d128.Decimal, exp map[string]any) bool {
	kind, neg, c, e := unmk(d)
	k, _ := exp["k"].(string)
	switch k {
	case "nan":
		return kind == 2
	case "inf":
		return kind == 1 && neg == exp["neg"].(bool)
	}
	if kind != 0 || neg != exp["neg"].(bool) {
		return false
	}
	ec := fromBigN(map[string]any{"neg": false, "l": exp["c"]})
	eq := int(exp["q"].(float64))
	if c.Sign() == 0 || ec.Sign() == 0 {
		return c.Sign() == ec.Sign()
	}
	lo := e
	if eq < lo {
		lo = eq
	}
	if e-lo > 20000 || eq-lo > 20000 {
		return false
	}
	a := new(big.Int).Mul(c, pow10(e-lo))
	b := new(big.Int).Mul(ec, pow10(eq-lo))
	return a.Cmp(b) == 0
}

// replaybeh <behaviours.jsonl> <out.ndjson>: step TLC-generated behaviours through the real library; every step
// becomes an ordinary trace event (so that it is validated again by TLC), annotated with bok = "the register holds
// the value the behaviour expects"
func replayBehMain(args []string) {
	if len(args) != 2 {
		fmt.Fprintln(os.Stderr, "usage: driver replaybeh in out")
		os.Exit(2)
	}
	f, err := os.Open(args[0])
	if err != nil {
		fmt.Fprintln(os.Stderr, err)
		os.Exit(2)
	}
	defer f.Close()
	w := newWriter(args[1], 0)
	sc := bufio.NewScanner(f)
	sc.Buffer(make([]byte, 1<<20), 1<<28)
	nb := 0
	for sc.Scan() {
		var steps []map[string]any
		if err := json.Unmarshal(sc.Bytes(), &steps); err != nil {
			fmt.Fprintln(os.Stderr, "bad behaviour:", err)
			os.Exit(2)
		}
		nb++
		regs := map[int]d128.Decimal{}
		reg := func(k string, s map[string]any) d128.Decimal { return regs[int(s[k].(float64))] }
		e0 := Ev{"op": "SetMode", "m": 0, "beh": nb}
		exec(e0)
		w.put(e0)
		for si, s := range steps {
			op := s["op"].(string)
			var e Ev
			switch op {
			case "SetMode":
				e = Ev{"op": "SetMode", "m": int(s["m"].(float64))}
			case "Load":
				e = Ev{"op": "UnmarshalBinary", "bs": s["bits"]}
				e.setDec("prev", reg("d", s))
			case "Add", "Sub", "Mul", "Quo":
				e = Ev{"op": op, "wm": s["wm"].(bool), "m": int(s["m"].(float64))}
				e.setDec("x", reg("a", s))
				e.setDec("y", reg("b", s))
			case "Min", "Max":
				e = Ev{"op": op}
				e.setDec("x", reg("a", s))
				e.setDec("y", reg("b", s))
			case "Neg", "Abs", "Canonical":
				e = Ev{"op": op}
				e.setDec("x", reg("a", s))
			case "QuoRem":
				e = Ev{"op": "QuoRem", "wm": true, "m": int(s["m"].(float64))}
				e.setDec("x", reg("a", s))
				e.setDec("y", reg("b", s))
			case "Text":
				e = Ev{"op": "String"}
				e.setDec("x", reg("a", s))
			case "Ldexp":
				e = Ev{"op": "Ldexp", "exp": int(s["k"].(float64))}
				e.setDec("x", reg("a", s))
			case "Round":
				e = Ev{"op": "Round", "wm": true, "m": int(s["m"].(float64)), "dp": int(s["dp"].(float64))}
				e.setDec("x", reg("a", s))
			case "Ceil", "Floor":
				e = Ev{"op": op, "dp": int(s["dp"].(float64))}
				e.setDec("x", reg("a", s))
			case "Cmp":
				e = Ev{"op": "Cmp"}
				e.setDec("x", reg("a", s))
				e.setDec("y", reg("b", s))
			case "Pow":
				e = Ev{"op": "Pow", "wm": true, "m": int(s["m"].(float64))}
				e.setDec("x", reg("a", s))
				e.setDec("y", reg("b", s))
				if wit := lnWitness(reg("a", s)); wit != nil {
					e["w"] = wit
				}
			case "Frexp":
				e = Ev{"op": "Frexp"}
				e.setDec("x", reg("a", s))
			case "Exp", "Exp2", "Exp10", "Expm1", "Log", "Log2", "Log10", "Log1p", "Sqrt", "Cbrt":
				e = Ev{"op": op}
				e.setDec("x", reg("a", s))
			case "SqrtSq", "CbrtCube", "F64", "FmtE":
				if skip, _ := s["skip"].(bool); skip {
					continue // the composite has no exactly specified result for this operand
				}
				x := reg("a", s)
				sub := func(e1 Ev) Ev {
					e1["beh"] = nb
					e1["step"] = si + 1
					exec(e1)
					w.put(e1)
					return e1
				}
				switch op {
				case "SqrtSq", "CbrtCube":
					e1 := Ev{"op": "Mul", "wm": true, "m": 0}
					e1.setDec("x", x)
					e1.setDec("y", x)
					p := sub(e1).dec("r")
					if op == "CbrtCube" {
						e2 := Ev{"op": "Mul", "wm": true, "m": 0}
						e2.setDec("x", p)
						e2.setDec("y", x)
						p = sub(e2).dec("r")
						e = Ev{"op": "Cbrt"}
					} else {
						e = Ev{"op": "Sqrt"}
					}
					e.setDec("x", p)
				case "F64":
					e1 := Ev{"op": "Float64"}
					e1.setDec("x", x)
					e = Ev{"op": "FromFloat64", "f": sub(e1)["f"]}
				case "FmtE":
					e1 := Ev{"op": "Format", "verb": int('e'), "prec": int(s["prec"].(float64))}
					e1.setDec("x", x)
					e = Ev{"op": "Parse", "via": "Parse", "s": sub(e1)["s"]}
				}
			case "Binary", "Json", "Sql", "Int":
				// two calls: the encoding / conversion, then the way back
				var e1 Ev
				switch op {
				case "Binary":
					e1 = Ev{"op": "MarshalBinary"}
				case "Json":
					e1 = Ev{"op": "MarshalJSON"}
				case "Sql":
					e1 = Ev{"op": "Decompose", "bufcap": -1}
				default:
					e1 = Ev{"op": "ToInt", "ty": s["ty"]}
				}
				e1.setDec("x", reg("a", s))
				e1["beh"] = nb
				e1["step"] = si + 1
				exec(e1)
				w.put(e1)
				switch op {
				case "Binary":
					e = Ev{"op": "UnmarshalBinary", "bs": e1["bs"]}
				case "Json":
					if e1["mjerr"] != "none" {
						continue // no JSON form (the behaviour expects the register to stay as it is)
					}
					e = Ev{"op": "UnmarshalJSON", "s": e1["mj"]}
				case "Sql":
					e = Ev{"op": "Compose", "form": e1["form"], "neg": e1["neg"], "sig": e1["sig"], "exp": e1["exp"]}
				default:
					if e1.has("panic") {
						continue // NaN: nothing to store
					}
					e = Ev{"op": "FromInt64", "ty": s["ty"], "v": e1["n"]}
				}
				if op != "Int" {
					e.setDec("prev", reg("d", s))
				}
			default:
				fmt.Fprintln(os.Stderr, "unknown behaviour op", op)
				os.Exit(2)
			}
			e["beh"] = nb
			e["step"] = si + 1
			exec(e)
			switch op {
			case "SetMode":
			case "Cmp":
				want := s["cmp"].([]any)
				e["bok"] = e["lt"] == want[0].(bool) && e["eq"] == want[1].(bool) && e["gt"] == want[2].(bool)
			case "Frexp": // the register receives Ldexp(Frexp(x)), which the Frexp event records as back
				r := e.dec("back")
				regs[int(s["d"].(float64))] = r
				e["bok"] = matchesExpected(r, s["exp"].(map[string]any))
			case "Pow", "Exp10", "Exp2", "Log10", "Log2":
				if skip, _ := s["skip"].(bool); skip {
					break // no exactly specified result: the call is validated as a trace event, the register stays
				}
				r := e.dec("r")
				regs[int(s["d"].(float64))] = r
				e["bok"] = matchesExpected(r, s["exp"].(map[string]any))
			case "Text": // the register receives Parse(String(x)), which the String event records as bp
				r := e.dec("bp")
				regs[int(s["d"].(float64))] = r
				e["bok"] = matchesExpected(r, s["exp"].(map[string]any))
			case "QuoRem":
				q, r2 := e.dec("r"), e.dec("r2")
				regs[int(s["d"].(float64))] = q
				regs[int(s["d2"].(float64))] = r2
				e["bok"] = matchesExpected(q, s["exp"].(map[string]any)) && matchesExpected(r2, s["exp2"].(map[string]any))
			default:
				r := e.dec("r")
				regs[int(s["d"].(float64))] = r
				e["bok"] = matchesExpected(r, s["exp"].(map[string]any))
			}
			w.put(e)
		}
	}
	w.close()
	fmt.Println("behaviours replayed:", nb)
}
