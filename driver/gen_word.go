package main

import (
	"math/big"

	d128 "github.com/woodsbury/decimal128"
)

// Word-structured coefficients.  The implementation keeps coefficients and intermediates in 64-bit words and cuts
// decimal digits off in steps (10, 100, 1000, 10^4, 10^8, 10^19).  A test of the form "is the rest zero", "did the
// increment carry", "is this the constant 5" that looks at ONE word only goes wrong exactly when the other word is
// non-zero while the inspected one has a special content (0, 1, 5, all ones) -- values of density 2^-64 that no drawn
// operand reaches and that the decimal boundary values (10^k, 2^64, 2^128/10 ...) are not.  The family enumerated here:
//
//	A:  c = W * 10^k + r          the quotient of c by 10^k is word-structured (k <= 14; r = 0, 7, 10^k - 1)
//	B:  c = Q * 10^k + d * 10^(k-1) + W    the digits below a rounding digit d are word-structured (k >= 21)
//
// with W = h * 2^64 + l,  l in {0, 1, 5, 2^64 - 1},  h = 1 or drawn.
type wordCoef struct {
	c      *big.Int
	k      int  // the cut position the structure refers to
	famB   bool // family B
	l      int  // index of the low word
	hDrawn bool
}

var wordLows []*big.Int

func init() {
	allOnes := new(big.Int).Sub(new(big.Int).Lsh(big.NewInt(1), 64), big.NewInt(1))
	wordLows = []*big.Int{big.NewInt(0), big.NewInt(1), big.NewInt(5), allOnes}
}

var wordKsA = []int{0, 1, 2, 3, 4, 8, 10, 14}
var wordKsB = []int{21, 22, 25, 33}

// the enumerated cells; the drawn parts (h, Q, r's random variant) are filled in per run
func wordCells() []wordCoef {
	var out []wordCoef
	for _, k := range wordKsA {
		for l := range wordLows {
			for h := 0; h < 2; h++ {
				for rc := 0; rc < 3; rc++ {
					if k == 0 && rc > 0 {
						continue
					}
					out = append(out, wordCoef{k: k, l: l, hDrawn: h == 1, c: big.NewInt(int64(rc))})
				}
			}
		}
	}
	for _, k := range wordKsB {
		for l := range wordLows {
			for h := 0; h < 2; h++ {
				for d := 0; d < 3; d++ {
					out = append(out, wordCoef{k: k, l: l, hDrawn: h == 1, famB: true, c: big.NewInt(int64(d))})
				}
			}
		}
	}
	// family C: the remainder by 10^19 (one 64-bit word) has its low 32 bits zero -- a test on a narrowed remainder
	// (uint32(rem) != 0) forgets it; with and without a guard digit in front
	for l := 100; l < 104; l++ {
		for d := 0; d < 3; d++ {
			for gd := 0; gd < 2; gd++ { // the digit above the block: 0, or 5 below an even digit
				out = append(out, wordCoef{k: 19, l: l, famB: true, hDrawn: gd == 1, c: big.NewInt(int64(d))})
			}
		}
	}
	return out
}

// realise a cell (the field c of the cell carries the r class resp. the guard class)
func (g *Gen) wordRealise(w wordCoef) *big.Int {
	two64 := new(big.Int).Lsh(big.NewInt(1), 64)
	cls := int(w.c.Int64())
	if w.l >= 100 {
		var r *big.Int
		switch w.l {
		case 100:
			r = new(big.Int).Lsh(big.NewInt(1), 32)
		case 101:
			r = new(big.Int).Lsh(big.NewInt(int64(1+g.r.Intn(200000000))), 32)
		case 102:
			r = new(big.Int).Lsh(big.NewInt(1), 48)
		default:
			r = new(big.Int).Lsh(big.NewInt(int64(1+g.r.Intn(1<<16))), 40)
		}
		d := []int64{0, 5, 9}[cls]
		c := new(big.Int).Add(new(big.Int).Mul(big.NewInt(d), pow10(18)), r)
		q := randDigits(g.r, 1+g.r.Intn(15))
		if g.r.Intn(3) == 0 {
			q = big.NewInt(1)
		}
		// the digit above the block is 0, or 5 below an even digit: a cut one place higher sees an exact value or a tie to even
		// but for the block
		q.Sub(q, new(big.Int).Mod(q, big.NewInt(100)))
		q.Add(q, big.NewInt(int64(20*g.r.Intn(5))))
		if w.hDrawn {
			q.Add(q, big.NewInt(5))
		} else if q.Sign() == 0 {
			q = big.NewInt(int64(10 * (1 + g.r.Intn(9))))
		}
		return c.Add(c, new(big.Int).Mul(q, pow10(19)))
	}
	if !w.famB {
		// h such that W * 10^k stays a legal coefficient
		maxH := new(big.Int).Div(new(big.Int).Div(cMax, pow10(w.k)), two64)
		if maxH.Sign() == 0 {
			maxH = big.NewInt(1)
		}
		h := big.NewInt(1)
		if w.hDrawn && maxH.Cmp(big.NewInt(1)) > 0 {
			h = new(big.Int).Rand(g.r, maxH)
			if h.Sign() == 0 {
				h = new(big.Int).Set(maxH)
			}
		}
		W := new(big.Int).Add(new(big.Int).Mul(h, two64), wordLows[w.l])
		c := new(big.Int).Mul(W, pow10(w.k))
		switch cls {
		case 1:
			c.Add(c, big.NewInt(7))
		case 2:
			c.Add(c, new(big.Int).Sub(pow10(w.k), big.NewInt(1)))
		}
		if c.Cmp(cMax) > 0 {
			c = new(big.Int).Mul(new(big.Int).Add(two64, wordLows[w.l]), pow10(w.k))
		}
		return c
	}
	// family B: W < 10^(k-1)
	maxH := new(big.Int).Div(pow10(w.k-1), two64)
	maxH.Sub(maxH, big.NewInt(1))
	h := big.NewInt(1)
	if w.hDrawn && maxH.Cmp(big.NewInt(1)) > 0 {
		h = new(big.Int).Rand(g.r, maxH)
		if h.Sign() == 0 {
			h = big.NewInt(2)
		}
	}
	W := new(big.Int).Add(new(big.Int).Mul(h, two64), wordLows[w.l])
	d := []int64{0, 5, 9}[cls]
	c := new(big.Int).Add(new(big.Int).Mul(big.NewInt(d), pow10(w.k-1)), W)
	nq := 34 - w.k
	if nq > 0 {
		q := randDigits(g.r, 1+g.r.Intn(nq))
		if g.r.Intn(2) == 0 { // an even last kept digit, so that a tie is decided by the sticky digits alone
			q.Sub(q, big.NewInt(int64(q.Bit(0))))
			if q.Sign() == 0 {
				q = big.NewInt(2)
			}
		}
		c.Add(c, new(big.Int).Mul(q, pow10(w.k)))
	}
	return c
}

// wordGrid walks the cells; f receives the coefficient and the cut position its structure refers to
func (g *Gen) wordGrid(share float64, f func(c *big.Int, k int)) {
	cells := wordCells()
	g.gridRun(len(cells), share, func(i int) {
		f(g.wordRealise(cells[i]), cells[i].k)
	})
}

// a word-structured coefficient drawn at random (for the generators that mix it into their operand pools)
func (g *Gen) wordCoefRandom() (*big.Int, int) {
	cells := wordCells()
	w := cells[g.r.Intn(len(cells))]
	return g.wordRealise(w), w.k
}

// single-bit coefficients 2^n and 2^n - 1 for every n up to 112 (plus the largest coefficient's neighbours): a mask or a
// shift that is one bit off in the field layout shows on exactly one of them
func bitCoefs() []*big.Int {
	var out []*big.Int
	for n := uint(0); n <= 113; n++ {
		w := new(big.Int).Lsh(big.NewInt(1), n)
		if w.Cmp(cMax) <= 0 {
			out = append(out, w)
		}
		m := new(big.Int).Sub(w, big.NewInt(1))
		if m.Sign() > 0 && m.Cmp(cMax) <= 0 {
			out = append(out, m)
		}
	}
	return out
}

func (g *Gen) bitGrid(share float64, f func(x d128.Decimal)) {
	bc := bitCoefs()
	g.gridRun(len(bc)*2, share, func(i int) {
		e := []int{0, eMin, eMax, -1, 1, 4, -6000}[g.r.Intn(7)]
		if i%2 == 1 {
			e = g.r.Intn(41) - 20
		}
		f(mk(g.r.Intn(2) == 0, bc[i/2], e))
	})
}

// ---- uses -----------------------------------------------------------------------------------------------------

// Add / Sub: the word-structured operand is the one that gets aligned (divided down) -- in both operand orders, at the gap
// that cuts exactly at k, one beyond, and at a gap wide enough for the multi-step reduction
func (g *Gen) wordAddGrid(share float64) {
	g.wordGrid(share, func(c *big.Int, k int) {
		for _, gap := range []int{k, 15, 1 + g.r.Intn(40)} {
			if gap == 0 {
				gap = 9
			}
			e := g.r.Intn(41) - 20
			y := mk(g.r.Intn(2) == 0, c, e)
			x := mk(g.r.Intn(2) == 0, g.fullCoef(), e+gap)
			op := g.addSubOp()
			g.someModes(op, x, y, 2)
			g.someModes(op, y, x, 1)
		}
	})
}

func (g *Gen) wordMulQuoGrid(share float64) {
	g.wordGrid(share, func(c *big.Int, k int) {
		e := g.r.Intn(41) - 20
		x := mk(g.r.Intn(2) == 0, c, e)
		small := mk(g.r.Intn(2) == 0, randDigits(g.r, 1+g.r.Intn(18)), g.r.Intn(21)-10)
		full := mk(g.r.Intn(2) == 0, g.fullCoef(), g.r.Intn(21)-10)
		g.someModes("Mul", x, small, 2)
		g.someModes("Mul", full, x, 1)
		g.someModes("Quo", x, small, 2)
		g.someModes("Quo", full, x, 2)
		// the exact quotient W: c / 10^k and c / (a divisor of 10^k)
		g.someModes("Quo", x, mk(false, pow10(k%20), 0), 1)
	})
}

func (g *Gen) wordQuoRemGrid(share float64) {
	g.wordGrid(share, func(c *big.Int, k int) {
		e := g.r.Intn(11) - 5
		x := mk(g.r.Intn(2) == 0, c, e)
		for _, gap := range []int{0, k, 20 + g.r.Intn(15)} {
			y := mk(g.r.Intn(2) == 0, randDigits(g.r, 1+g.r.Intn(20)), e-gap)
			g.bin("QuoRem", x, y, g.r.Intn(6))
			if e+gap <= eMax {
				z := mk(g.r.Intn(2) == 0, g.fullCoef(), e+gap)
				g.bin("QuoRem", z, x, g.r.Intn(6))
			}
		}
		// divisors of exactly 20 digits that still fit one word, long quotients (a partial quotient of 2^64 or more)
		d20 := new(big.Int).Add(pow10(19), new(big.Int).Rand(g.r, new(big.Int).Sub(new(big.Int).Lsh(big.NewInt(1), 64), pow10(19))))
		g.bin("QuoRem", mk(g.r.Intn(2) == 0, c, 25+g.r.Intn(16)), mk(g.r.Intn(2) == 0, d20, 0), g.r.Intn(6))
	})
}

func (g *Gen) wordCmpGrid(share float64, f func(x, y d128.Decimal)) {
	g.wordGrid(share, func(c *big.Int, k int) {
		e := g.r.Intn(41) - 20
		neg := g.r.Intn(2) == 0
		x := mk(neg, c, e)
		// against the same value cut at k (equal or just different), one unit more, and the re-encoded value
		q := new(big.Int).Div(c, pow10(k))
		if q.Sign() > 0 && e+k <= eMax {
			f(x, mk(neg, q, e+k))
			f(x, mk(neg, new(big.Int).Add(q, big.NewInt(1)), e+k))
		}
		for _, gap := range []int{17, 18} {
			q2 := new(big.Int).Div(c, pow10(gap))
			if q2.Sign() > 0 {
				f(x, mk(neg, q2, e+gap))
			}
		}
		f(x, mk(neg, new(big.Int), randExp(g.r)))
	})
}

// Round / Ceil / Floor cutting exactly at k (the kept part resp. the dropped part is word-structured), and one digit
// to either side
func (g *Gen) wordQuantGrid(share float64) {
	g.wordGrid(share, func(c *big.Int, k int) {
		e := g.r.Intn(41) - 20 - k
		x := mk(g.r.Intn(2) == 0, c, e)
		for _, cut := range []int{k, k + 1, k - 1} {
			if cut < 1 {
				continue
			}
			dp := -(e + cut)
			for m := 0; m < 6; m++ {
				g.quant("Round", x, dp, m)
			}
			g.quant("Ceil", x, dp, 0)
			g.quant("Floor", x, dp, 0)
			if cut != k {
				break
			}
		}
	})
}
